"""C20 - Tag authentication and MAC-protected reads cannot be fooled.

Real `FelicaLite`, `FelicaLiteS`, `NTAG210/213/216` objects (created by
`nfc.tag.activate`) talk through `sim.authclf.AuthClf` to tag models that
compute session key, MAC and MAC_A independently (sim/felica_lite.py) or hold
PWD/PACK (sim/ntag21x.py).  The clf can modify any response in transit.

Parts (all enumerations are complete grids, nothing is sampled):

  auth     fault free truth table: tag key K x password P x challenge x
           password type; authenticate(P) is True exactly when key(P) == K
  protect  factory tag: protect(P) is True and the tag holds key(P); then a
           fresh activation and authenticate(P') for every P' of the set
  read     one authenticated session per (product, K, challenge, block
           selection); every single-bit flip and every 00/FF octet
           substitution of the read_with_mac response
  conv     fresh tag and fresh Tag object per case; every single-bit flip and
           00/FF substitution of every response of authenticate(P) followed by
           read_with_mac(0), for matching and non-matching P
  ndef     fresh per case; after authenticate every single-bit flip and 00/FF
           substitution of every response of the `tag.ndef` read
  ntag     NTAG21x truth table, protect/activate/authenticate, and every
           single-bit flip / length / NAK variant of the PWD_AUTH response
  pairs    (thorough) every pair of bit flips inside the 32 octets
           data+MAC block of one-block read_with_mac responses

Oracle under modification is soundness only, exactly what the statement
demands: authenticate is True => the tag holds key(P) and no MAC-verified
response (data or MAC octets) was modified; read_with_mac returns data => it
is the tag's data and neither data nor MAC octets were modified; tag.ndef
exposes octets => they are the tag's message and no MAC-covered octet or MAC
was modified.  None / False / TagCommandError are "detected".  Any other
exception type leaving the public call is reported with its own signature.
"""
import itertools
import os
import time

from mc.evidence import Run, sig_exc
from mc import par, shims
from sim import felica_lite as fl
from sim import ntag21x as nt
from sim.authclf import AuthClf

PROP = 'C20'
VERIF_DIR = os.path.dirname(os.path.dirname(os.path.abspath(__file__)))


class HarnessError(Exception):
    pass


class SetupFailed(Exception):
    """The fault-free prefix of a case already violates the oracle; carries
    (signature, detail) and is reported as a failure, never swallowed."""


# ------------------------------------------------------------ the grids ----
def flip(b, i, mask):
    b = bytearray(b)
    b[i] ^= mask
    return bytes(b)


A = b'0123456789abcdef'
F_KEYS = [                                # keys a tag can hold
    ('factory', bytes(16)),
    ('ff', b'\xff' * 16),
    ('A', A),
    ('A1', flip(A, 3, 0x02)),             # one bit, first key half
    ('A2', flip(A, 12, 0x04)),            # one bit, second key half
    ('AS', A[8:] + A[:8]),                # halves swapped
]
F_PASS = F_KEYS + [                       # passwords: the keys plus aliases
    ('empty', b''),                       # documented: factory key
    ('A+tail', A + b'-tail'),             # only 16 octets are key material
    ('Apar', flip(A, 0, 0x01)),           # DES parity bit only: same DES key
]
NA = b'NfcPwd'
N_KEYS = [
    ('factory', b'\xff\xff\xff\xff\x00\x00'),
    ('zero', bytes(6)),
    ('A', NA),
    ('Ap0', flip(NA, 0, 0x01)),           # one bit in PWD0
    ('Ap3', flip(NA, 3, 0x04)),           # one bit in PWD3
    ('Ak0', flip(NA, 4, 0x01)),           # one bit in PACK0
    ('Ak1', flip(NA, 5, 0x01)),           # one bit in PACK1
]
N_PASS = N_KEYS + [('empty', b''), ('A+tail', NA + b'-tail')]

CHALLENGES = [
    bytes(range(16)),
    bytes.fromhex('8f3a61c2d95e07b41c6df0a9527be384'),
    bytes(16),
    b'\xff' * 16,
]
SEL_BLOCKS = [0, 1, 13, 14, 0x82, 0x86]
SELECTIONS = [c for n in (1, 2, 3)
              for c in itertools.combinations(SEL_BLOCKS, n)]
PTYPES = ('bytes', 'bytearray', 'str')
NDEF_MESSAGE = b'\xd1\x01\x30T\x02en' + bytes(
    0x41 + (i * 7) % 26 for i in range(45))          # 52 octets, 4 blocks


def f_key(octets):
    """Reference: the card key a FeliCa Lite password stands for."""
    return bytes(16) if len(octets) == 0 else bytes(octets[:16])


def n_key(octets):
    return b'\xff\xff\xff\xff\x00\x00' if len(octets) == 0 \
        else bytes(octets[:6])


def des_equiv(a, b):
    """Two-key 3DES keys are equal as keys iff they agree outside the parity
    bits (bit 0 of every octet is not used by DES)."""
    return bytes(x & 0xFE for x in a) == bytes(x & 0xFE for x in b)


def typed(ptype, octets):
    if ptype == 'bytes':
        return bytes(octets)
    if ptype == 'bytearray':
        return bytearray(octets)
    return bytes(octets).decode('ascii')


def has_type(ptype, octets):
    return ptype != 'str' or all(x < 0x80 for x in octets)


def dkeys(pairs):
    return dict(pairs)


# -------------------------------------------------------------- helpers ----
def call(fn, *a):
    try:
        return ('ret', fn(*a))
    except Exception as e:                # judged by the caller
        tb = e.__traceback__
        while tb.tb_next is not None:
            tb = tb.tb_next
        if tb.tb_frame.f_code.co_filename.startswith(VERIF_DIR):
            raise                         # raised by harness/simulator code
        return ('exc', e)


def is_tag_error(e):
    import nfc.tag
    return isinstance(e, nfc.tag.TagCommandError)


def set_challenge(ch):
    def f(n, _c=bytes(ch)):
        # how many octets the library asks for is its own business: the
        # scripted source is the challenge repeated
        return (_c * (n // len(_c) + 1))[:n]
    shims.set_urandom(f)


def f_model(product, key, ndef=None):
    m = fl.FelicaLiteTag(lite_s=(product == 'FelicaLiteS'), card_key=key)
    if ndef is not None:
        m.set_ndef(ndef)
    else:
        m.mem[0] = fl.ndef_attribute_block(16)
        m.mem[1] = bytearray(b'\xd1\x01\x0cT\x02enhello c20')
    m.mem[13] = bytearray((0xD0 + i) & 0xFF for i in range(16))
    m.mem[14] = bytearray((0x1E * (i + 1)) & 0xFF for i in range(16))
    m.mem[fl.CKV][0:2] = b'\x02\x01'
    return m


def f_activate(model, system_code=0x88B4):
    import nfc.tag
    clf = AuthClf(model, 'felica')
    tag = nfc.tag.activate(clf, clf.target(system_code))
    want = 'FelicaLiteS' if model.lite_s else 'FelicaLite'
    if type(tag).__name__ != want:
        raise HarnessError('activate gave %r, wanted %s' % (tag, want))
    return clf, tag


def n_activate(model):
    import nfc.tag
    clf = AuthClf(model, 'ntag')
    tag = nfc.tag.activate(clf, clf.target())
    if type(tag).__name__ != 'NTAG' + model.product:
        raise HarnessError('activate gave %r for NTAG%s' % (tag,
                                                            model.product))
    return clf, tag


def single_mods(i, rsp, lo=0, hi=None):
    """Every single-bit flip, then 00/FF substitutions that are not already
    single-bit flips or no-ops, of octets lo..hi of response i."""
    hi = len(rsp) if hi is None else hi
    for off in range(lo, hi):
        for b in range(8):
            yield [[i, 'xor', off, 1 << b]]
    for off in range(lo, hi):
        for v in (0x00, 0xFF):
            d = rsp[off] ^ v
            if d and d & (d - 1):
                yield [[i, 'set', off, v]]


def f_region(cmd, rsp, off):
    """Region of octet `off` of a FeliCa response to `cmd`:
    'data' / 'mac' for a successful Read whose block list ends with the MAC
    block (81h), else 'unprotected'."""
    if rsp is not None and len(cmd) > 12 and cmd[1] == 0x06 and \
            cmd[-2:] == b'\x80\x81' and len(rsp) >= 13 + 32 and \
            rsp[10] == 0 and len(rsp) == 13 + 16 * rsp[12]:
        n = len(rsp)
        if 13 <= off < n - 16:
            return 'data'
        if n - 16 <= off < n - 8:
            return 'mac'
    return 'unprotected'


def mods_region(mods, base):
    """base: {response index: (cmd, rsp)} of the unmodified conversation."""
    regs = set()
    for m in mods:
        cmd, rsp = base[m[0]]
        regs.add(f_region(cmd, rsp, m[2]) if m[1] in ('xor', 'set')
                 else 'unprotected')
    if regs & {'data', 'mac'}:
        return 'protected:' + '+'.join(sorted(regs & {'data', 'mac'}))
    return 'unprotected'


class Acc(object):
    """What one job adds to the run."""

    def __init__(self, run):
        self.run = run

    def ok(self, key, nontrivial=True, outcome=None):
        self.run.ok(key=key, nontrivial=nontrivial)
        if outcome is not None:
            self.run.outcome(outcome)
            self.run.count('outcome:' + ':'.join(str(x) for x in outcome))

    def fail(self, sig, detail, key, devs=0):
        self.run.fail(sig, detail, key=key, deviations=devs)
        self.run.count('fail')


def hexs(x):
    return None if x is None else bytes(x).hex()


def show(outcome):
    kind, v = outcome
    if kind == 'exc':
        return 'raised %s: %s' % (sig_exc(v), v)
    if isinstance(v, (bytes, bytearray)):
        return 'returned ' + bytes(v).hex()
    return 'returned %r' % (v,)


# --------------------------------------------------- part auth (FeliCa) ----
def jobs_auth(tier):
    chs = range(len(CHALLENGES))
    for product in ('FelicaLite', 'FelicaLiteS'):
        for kname, _ in F_KEYS:
            for ci in chs:
                yield dict(part='auth', product=product, key=kname, ch=ci)


def case_auth(product, key, ptype, poct, ch):
    """-> (verdict or None, outcome class)"""
    model = f_model(product, key)
    clf, tag = f_activate(model)
    set_challenge(ch)
    clf.arm()
    pw = typed(ptype, poct)
    o = call(tag.authenticate, pw)
    want = des_equiv(f_key(poct), key)
    detail = dict(part='auth', product=product, tag_key=key.hex(),
                  ptype=ptype, password=bytes(poct).hex(), challenge=ch.hex(),
                  expected=want, observed=show(o),
                  trace=[(hexs(c), hexs(d)) for _, c, _, d in clf.trace])
    if o[0] == 'exc':
        return ('%s|authenticate|%s|%s' % (product, ptype, sig_exc(o[1])),
                detail), 'exc'
    if o[1] is not want:
        return ('%s|authenticate|%s|returned-%r-expected-%r' % (
            product, ptype, o[1], want), detail), 'wrong'
    if tag.is_authenticated is not want:
        return ('%s|is_authenticated|%r-after-authenticate-%r' % (
            product, tag.is_authenticated, want), detail), 'wrong'
    if want:
        o2 = call(tag.read_with_mac, 0, 1)
        truth = model.user_data(0, 1)
        detail['read_with_mac'] = show(o2)
        if o2[0] == 'exc' or o2[1] is None or bytes(o2[1]) != truth:
            return ('%s|read_with_mac|unmodified-read-not-returned' % product,
                    detail), 'wrong'
    if not want:
        # After a failed authentication nothing may be accepted as
        # authenticated data: an attacker who knows the rejected password
        # (e.g. the public factory key) answers MAC'ed reads with data MAC'ed
        # under the session key of that password and the challenge seen on
        # the air.
        forger = f_model(product, f_key(poct))
        forger.mem[0] = bytearray(b'FORGED-BLOCK-ONE')
        forger.mem[1] = bytearray(b'FORGED-BLOCK-TWO')
        for _, cmd, _, _ in clf.trace:
            if len(cmd) > 1 and cmd[1] == 0x08:        # RC write, replayed
                forger.command(bytes(cmd))
        clf.model = forger
        clf.arm()
        o3 = call(tag.read_with_mac, 0, 1)
        detail['forged_read_after_failure'] = show(o3)
        if o3[0] == 'ret' and o3[1] is not None:
            return ('%s|read_with_mac|after-failed-authenticate|'
                    'returned-forged-data' % product, detail), 'fooled'
    return None, ('True' if want else 'False')


def work_auth(job, acc):
    product, ch = job['product'], CHALLENGES[job['ch']]
    key = dkeys(F_KEYS)[job['key']]
    for pname, poct in F_PASS:
        for ptype in PTYPES:
            if not has_type(ptype, poct):
                continue
            k = ('auth', product, job['key'], pname, ptype, job['ch'])
            v, cls = case_auth(product, key, ptype, poct, ch)
            if v is None:
                alias = pname in ('empty', 'A+tail', 'Apar')
                acc.ok(k, nontrivial=(cls == 'False' or alias),
                       outcome=('auth', product, ptype, cls,
                                'alias' if alias else 'key'))
            else:
                acc.fail(v[0], v[1], k)
    acc.run.sample(dict(part='auth', product=product, tag_key=job['key'],
                        challenge=ch.hex(), passwords=len(F_PASS)))


# ------------------------------------------------ part protect (FeliCa) ----
def jobs_protect(tier):
    for product in ('FelicaLite', 'FelicaLiteS'):
        for pname, poct in F_PASS:
            for t1 in PTYPES:
                if has_type(t1, poct):
                    yield dict(part='protect', product=product, pw=pname,
                               ptype=t1)
                    # the tag already holds another key (system blocks
                    # still writeable)
                    if t1 == 'bytes' or pname in ('empty', 'A1'):
                        yield dict(part='protect', product=product, pw=pname,
                                   ptype=t1, start='AS')


def work_protect(job, acc):
    product, t1 = job['product'], job['ptype']
    poct = dkeys(F_PASS)[job['pw']]
    start = job.get('start')
    model = f_model(product, dkeys(F_KEYS)[start] if start else bytes(16))
    clf, tag = f_activate(model)
    set_challenge(CHALLENGES[0])
    clf.arm()
    o = call(tag.protect, typed(t1, poct))
    k0 = ('protect', product, job['pw'], t1, start)
    detail = dict(part='protect', product=product, ptype=t1, start=start,
                  password=poct.hex(), observed=show(o),
                  expected='True, card key %s' % f_key(poct).hex(),
                  card_key_after=model.card_key().hex(),
                  trace=[(hexs(c), hexs(d)) for _, c, _, d in clf.trace])
    if o[0] == 'exc':
        acc.fail('%s|protect|%s|%s' % (product, t1, sig_exc(o[1])), detail, k0)
        acc.run.count('protect:authenticate cases skipped',
                      len(F_PASS) * len(PTYPES))
        return
    if o[1] is not True:
        acc.fail('%s|protect|%s|returned-%r' % (product, t1, o[1]), detail, k0)
        return
    if model.card_key() != f_key(poct):
        acc.fail('%s|protect|%s|tag-holds-other-key' % (product, t1), detail,
                 k0)
        return
    acc.ok(k0, outcome=('protect', product, t1, 'True'))
    for pname2, poct2 in F_PASS:
        for t2 in PTYPES:
            if not has_type(t2, poct2):
                continue
            for ci in (0, 1):
                k = k0 + (pname2, t2, ci)
                clf, tag = f_activate(model)       # power cycle, new object
                set_challenge(CHALLENGES[ci])
                clf.arm()
                o = call(tag.authenticate, typed(t2, poct2))
                want = des_equiv(f_key(poct2), f_key(poct))
                d = dict(part='protect', product=product, ptype=t1,
                         password=poct.hex(), then='authenticate',
                         ptype2=t2, password2=poct2.hex(), ch=ci,
                         expected=want, observed=show(o))
                if o[0] == 'exc':
                    acc.fail('%s|authenticate|%s|%s' % (
                        product, t2, sig_exc(o[1])), d, k)
                elif o[1] is not want:
                    acc.fail('%s|protect-then-authenticate|%s,%s|returned-%r'
                             '-expected-%r' % (product, t1, t2, o[1], want),
                             d, k)
                else:
                    acc.ok(k, nontrivial=not want or pname2 != job['pw'],
                           outcome=('protect-auth', product, t1, t2, want))
    acc.run.sample(dict(part='protect', product=product, ptype=t1,
                        password=poct.hex(),
                        card_key_after=model.card_key().hex(),
                        mc_after=bytes(model.mem[fl.MC]).hex()))


# ---------------------------------------------------------- part read ----
def jobs_read(tier):
    if tier == 'quick':
        keys, chs = ('A',), (0, 1)
    else:
        keys, chs = ('A', 'factory', 'ff'), (0, 1, 2, 3)
    for product in ('FelicaLite', 'FelicaLiteS'):
        for kname in keys:
            for ci in chs:
                for sel in SELECTIONS:
                    if tier == 'quick' and ci == 1 and len(sel) > 1:
                        continue          # quick: challenge 1 one-block only
                    yield dict(part='read', product=product, key=kname,
                               ch=ci, sel=list(sel))


def read_session(product, key, ch, sel):
    """-> (model, clf, tag, truth, base) or a verdict tuple."""
    model = f_model(product, key)
    clf, tag = f_activate(model)
    set_challenge(ch)
    clf.arm()
    o = call(tag.authenticate, bytes(key))
    d = dict(product=product, tag_key=key.hex(), challenge=ch.hex(),
             sel=list(sel), observed=show(o))
    if o != ('ret', True):
        sig = sig_exc(o[1]) if o[0] == 'exc' else 'returned-%r-expected-True' \
            % (o[1],)
        return ('%s|authenticate|bytes|%s' % (product, sig), d)
    truth = model.user_data(*sel)
    clf.arm()
    o = call(tag.read_with_mac, *sel)
    if o[0] == 'exc' or o[1] is None or bytes(o[1]) != truth:
        d['observed'] = show(o)
        return ('%s|read_with_mac|unmodified-read-not-returned' % product, d)
    _, cmd, rsp, _ = clf.trace[0]
    return model, clf, tag, truth, {0: (cmd, rsp)}


def judge_read(product, o, truth, region):
    """-> (signature or None, outcome class)"""
    if o[0] == 'exc':
        if is_tag_error(o[1]):
            return None, 'TagCommandError'
        return '%s|read_with_mac|%s|%s' % (
            product, region.split(':')[0], sig_exc(o[1])), 'exc'
    if o[1] is None:
        return None, 'None'
    if region != 'unprotected':
        return '%s|read_with_mac|returned-data-with-modified-%s' % (
            product, region.split(':')[1]), 'fooled'
    if bytes(o[1]) != truth:
        return '%s|read_with_mac|returned-wrong-data' % product, 'fooled'
    return None, 'data'


def tamper_reads(job, acc, mod_iter, label):
    product, ch = job['product'], CHALLENGES[job['ch']]
    key, sel = dkeys(F_KEYS)[job['key']], tuple(job['sel'])
    s = read_session(product, key, ch, sel)
    if len(s) == 2:
        acc.fail(s[0], dict(s[1], part=label), (label, 'setup', product,
                                                job['key'], job['ch'], sel))
        return
    model, clf, tag, truth, base = s
    acc.ok((label, 'base', product, job['key'], job['ch'], sel),
           nontrivial=False, outcome=(label, product, 'unmodified', 'data'))
    n = 0
    for mods in mod_iter(base[0][1]):
        n += 1
        region = mods_region(mods, base)
        clf.arm(mods)
        o = call(tag.read_with_mac, *sel)
        sig, cls = judge_read(product, o, truth, region)
        k = (label, product, job['key'], job['ch'], sel, repr(mods))
        if sig is None:
            acc.ok(k, outcome=(label, product, region, cls))
        else:
            acc.fail(sig, dict(part=label, job=job, mods=mods, region=region,
                               tag_key=key.hex(), challenge=ch.hex(),
                               command=hexs(base[0][0]),
                               tag_response=hexs(base[0][1]),
                               delivered=hexs(clf.trace[0][3]),
                               observed=show(o), truth=truth.hex(),
                               expected='None or TagCommandError'
                               if region != 'unprotected'
                               else 'the tag data, None or TagCommandError'),
                     k, devs=len(mods))
        if n % 257 == 0 or cls in ('exc', 'fooled'):
            clf.arm()
            o = call(tag.read_with_mac, *sel)
            if o[0] == 'exc' or o[1] is None or bytes(o[1]) != truth:
                acc.fail('%s|read_with_mac|session-unusable-after-tampered-'
                         'read' % product,
                         dict(part=label, job=job, after_mods=mods,
                              observed=show(o)), k + ('health',))
                s = read_session(product, key, ch, sel)
                if len(s) == 2:
                    return
                model, clf, tag, truth, base = s
    acc.run.count(label + ':sessions')
    if job['sel'] in ([0], [0, 0x82, 0x86]):
        acc.run.sample(dict(part=label, product=product, key=job['key'],
                            challenge=ch.hex(), sel=job['sel'], cases=n,
                            command=hexs(base[0][0]),
                            response=hexs(base[0][1])))


def work_read(job, acc):
    tamper_reads(job, acc, lambda rsp: single_mods(0, rsp), 'read')


# --------------------------------------------------------- part pairs ----
def jobs_pairs(tier):
    if tier == 'quick':
        return
    for product in ('FelicaLite', 'FelicaLiteS'):
        for sel in SELECTIONS:
            if len(sel) == 1:
                for half in range(4):
                    yield dict(part='pairs', product=product, key='A', ch=1,
                               sel=list(sel), half=half)


def work_pairs(job, acc):
    def it(rsp):
        # all unordered pairs of distinct bits in octets 13..45 (data + MAC
        # block); the job's `half` selects first-bit index mod 4
        bits = [(off, 1 << b) for off in range(13, len(rsp))
                for b in range(8)]
        for x in range(len(bits)):
            if x % 4 != job['half']:
                continue
            for y in range(x + 1, len(bits)):
                yield [[0, 'xor', bits[x][0], bits[x][1]],
                       [0, 'xor', bits[y][0], bits[y][1]]]
    tamper_reads(job, acc, it, 'pairs')


# ---------------------------------------------------------- part conv ----
CONV_SLICES = 8


def jobs_conv(tier):
    if tier == 'quick':
        cfgs = [('A', 'A', 0), ('A', 'A1', 0), ('A', 'AS', 1)]
    else:
        cfgs = [(k, p, c) for c in range(4)
                for k, p in (('A', 'A'), ('A', 'A1'), ('A', 'A2'),
                             ('A', 'AS'), ('factory', 'empty'),
                             ('factory', 'ff'), ('ff', 'ff'))]
    for product in ('FelicaLite', 'FelicaLiteS'):
        for k, p, c in cfgs:
            for s in range(CONV_SLICES):
                yield dict(part='conv', product=product, key=k, pw=p, ch=c,
                           slice=s)


def conv_run(product, key, poct, ch, mods):
    model = f_model(product, key)
    clf, tag = f_activate(model)
    set_challenge(ch)
    clf.arm(mods)
    o1 = call(tag.authenticate, bytes(poct))
    n_auth = len(clf.trace)
    o2 = call(tag.read_with_mac, 0) if o1 == ('ret', True) else None
    return model, clf, o1, o2, n_auth


def conv_judge(product, key, poct, base, n_auth0, mods, o1, o2, truth):
    """-> list of (signature, outcome class); signature None = satisfied"""
    out = []
    want = des_equiv(f_key(poct), key)
    region = mods_region(mods, base) if mods else 'unprotected'
    in_auth = any(m[0] < n_auth0 for m in mods)
    if o1[0] == 'exc':
        if is_tag_error(o1[1]):
            out.append((None, 'auth:TagCommandError'))
        else:
            out.append(('%s|authenticate|tampered-%s|%s' % (
                product, region.split(':')[0], sig_exc(o1[1])), 'auth:exc'))
    elif o1[1] is True:
        if not want:
            out.append(('%s|authenticate|True-with-wrong-key|tampered-%s' % (
                product, region.split(':')[0]), 'auth:fooled'))
        elif in_auth and region != 'unprotected':
            out.append(('%s|authenticate|True-with-modified-%s' % (
                product, region.split(':')[1]), 'auth:fooled'))
        else:
            out.append((None, 'auth:True'))
    elif o1[1] is False:
        out.append((None, 'auth:False'))
    else:
        out.append(('%s|authenticate|returned-%r' % (product, o1[1]),
                    'auth:nonbool'))
    if o2 is not None:
        r = 'unprotected' if in_auth else region
        sig, cls = judge_read(product, o2, truth, r)
        out.append((sig, 'read:' + cls))
    return out


def conv_cases(product, key, poct, ch):
    """Baseline conversation and the list of all modification cases."""
    model, clf, o1, o2, n_auth = conv_run(product, key, poct, ch, [])
    want = des_equiv(f_key(poct), key)
    if o1 != ('ret', want) or (want and (
            o2[0] == 'exc' or o2[1] is None
            or bytes(o2[1]) != model.user_data(0))):
        return None, (o1, o2), None, None
    base = {i: (c, r) for i, c, r, _ in clf.trace}
    cases = []
    for i in sorted(base):
        if base[i][1] is not None:
            cases.extend(single_mods(i, base[i][1]))
            cases.extend(reshaped(i, base[i][1]))
        cases.append([[i, 'timeout']])
    return base, (o1, o2), n_auth, cases


def reshaped(i, rsp):
    """Well-formed Read responses with another number of blocks than was
    asked for: k = 0..n-1 blocks (data cut accordingly, length octet and
    block count consistent) and n+1 blocks."""
    rsp = bytes(rsp)
    if len(rsp) < 13 or rsp[1] != 0x07 or rsp[10] != 0 or \
            len(rsp) != 13 + 16 * rsp[12]:
        return
    n = rsp[12]
    for k in list(range(0, n)) + [n + 1]:
        data = (rsp[13:] + bytes(16))[:16 * k]
        new = bytes([13 + 16 * k]) + rsp[1:12] + bytes([k]) + data
        yield [[i, 'replace', new.hex()]]


def work_conv(job, acc):
    product, ch = job['product'], CHALLENGES[job['ch']]
    key, poct = dkeys(F_KEYS)[job['key']], dkeys(F_PASS)[job['pw']]
    base, o, n_auth0, cases = conv_cases(product, key, poct, ch)
    k0 = ('conv', product, job['key'], job['pw'], job['ch'])
    if base is None:
        acc.fail('%s|authenticate+read|unmodified-conversation-wrong'
                 % product, dict(part='conv', job=job, observed=[
                     show(o[0]), o[1] and show(o[1])]), k0)
        return
    for idx, mods in enumerate(cases):
        if idx % CONV_SLICES != job['slice']:
            continue
        model, clf, o1, o2, _ = conv_run(product, key, poct, ch, mods)
        truth = model.user_data(0)
        k = k0 + (repr(mods),)
        res = conv_judge(product, key, poct, base, n_auth0, mods, o1, o2,
                         truth)
        bad = [r for r in res if r[0] is not None]
        rname = 'rsp%d/%d:%s' % (mods[0][0], n_auth0,
                                 mods_region(mods, base))
        if not bad:
            acc.ok(k, outcome=('conv', product, job['pw'] == job['key'],
                               rname, '+'.join(r[1] for r in res)))
        for sig, cls in bad:
            acc.fail(sig, dict(
                part='conv', job=job, mods=mods,
                region=mods_region(mods, base), tag_key=key.hex(),
                password=poct.hex(), challenge=ch.hex(),
                authenticate=show(o1), read_with_mac=o2 and show(o2),
                truth=truth.hex(),
                conversation=[(i, hexs(c), hexs(r), hexs(d))
                              for i, c, r, d in clf.trace]), k, devs=1)
    if job['slice'] == 0:
        acc.run.sample(dict(part='conv', product=product, key=job['key'],
                            password=job['pw'], challenge=ch.hex(),
                            responses=[len(base[i][1] or b'')
                                       for i in sorted(base)],
                            cases=len(cases)))


# ---------------------------------------------------------- part ndef ----
NDEF_SLICES = 16


def jobs_ndef(tier):
    if tier == 'quick':
        cfgs = [('A', 0, 0x88B4)]
    else:
        cfgs = [('A', 0, 0x88B4), ('A', 1, 0x12FC), ('factory', 2, 0x88B4),
                ('ff', 3, 0x12FC)]
    for product in ('FelicaLite', 'FelicaLiteS'):
        for k, c, sc in cfgs:
            for s in range(NDEF_SLICES):
                yield dict(part='ndef', product=product, key=k, ch=c, sys=sc,
                           slice=s)


def ndef_run(product, key, ch, sc, mods):
    model = f_model(product, key, ndef=NDEF_MESSAGE)
    clf, tag = f_activate(model, sc)
    set_challenge(ch)
    clf.arm()
    o = call(tag.authenticate, bytes(key))
    if o != ('ret', True):
        sig = sig_exc(o[1]) if o[0] == 'exc' else 'returned-%r-expected-True' \
            % (o[1],)
        raise SetupFailed('%s|authenticate|bytes|%s' % (product, sig),
                          dict(part='ndef', product=product,
                               tag_key=key.hex(), challenge=ch.hex(),
                               observed=show(o)))
    clf.arm(mods)

    def read():
        n = tag.ndef
        return None if n is None else bytes(n.octets)
    return model, clf, call(read)


def ndef_judge(product, o, region):
    if o[0] == 'exc':
        if is_tag_error(o[1]):
            return None, 'TagCommandError'
        return '%s|ndef|tampered-%s|%s' % (
            product, region.split(':')[0], sig_exc(o[1])), 'exc'
    if o[1] is None:
        return None, 'None'
    if o[1] != NDEF_MESSAGE:
        return '%s|ndef|exposed-modified-octets|tampered-%s' % (
            product, region.split(':')[0]), 'fooled'
    if region != 'unprotected':
        return '%s|ndef|octets-returned-with-modified-%s' % (
            product, region.split(':')[1]), 'fooled'
    return None, 'octets'


def work_ndef(job, acc):
    product, ch = job['product'], CHALLENGES[job['ch']]
    key = dkeys(F_KEYS)[job['key']]
    k0 = ('ndef', product, job['key'], job['ch'], job['sys'])
    try:
        model, clf, o = ndef_run(product, key, ch, job['sys'], [])
    except SetupFailed as e:
        acc.fail(e.args[0], dict(e.args[1], job=job), k0 + (job['slice'],))
        return
    if o != ('ret', NDEF_MESSAGE):
        acc.fail('%s|ndef|unmodified-read-wrong' % product,
                 dict(part='ndef', job=job, observed=show(o)), k0)
        return
    base = {i: (c, r) for i, c, r, _ in clf.trace}
    cases = []
    for i in sorted(base):
        cases.extend(single_mods(i, base[i][1]))
        cases.append([[i, 'timeout']])
    for idx, mods in enumerate(cases):
        if idx % NDEF_SLICES != job['slice']:
            continue
        model, clf, o = ndef_run(product, key, ch, job['sys'], mods)
        region = mods_region(mods, base)
        sig, cls = ndef_judge(product, o, region)
        k = k0 + (repr(mods),)
        if sig is None:
            acc.ok(k, outcome=('ndef', product, 'rsp%d:%s' % (
                mods[0][0], region), cls))
        else:
            acc.fail(sig, dict(
                part='ndef', job=job, mods=mods, region=region,
                tag_key=key.hex(), challenge=ch.hex(), observed=show(o),
                message=NDEF_MESSAGE.hex(),
                conversation=[(i, hexs(c), hexs(r), hexs(d))
                              for i, c, r, d in clf.trace]), k, devs=1)
    if job['slice'] == 0:
        acc.run.sample(dict(part='ndef', product=product, key=job['key'],
                            sys='%04X' % job['sys'], cases=len(cases),
                            commands=[hexs(base[i][0]) for i in sorted(base)]))


# ---------------------------------------------------------- part ntag ----
def jobs_ntag(tier):
    for product in ('210', '213', '216'):
        yield dict(part='ntag', product=product, what='truth')
        yield dict(part='ntag', product=product, what='tamper')
        for pname, poct in N_PASS:
            for t1 in PTYPES:
                if has_type(t1, poct):
                    yield dict(part='ntag', product=product, what='protect',
                               pw=pname, ptype=t1)


def ntag_tamper_mods(rsp, poct):
    pack = n_key(poct)[4:6].hex()
    yield []
    if rsp is not None:
        for m in single_mods(0, rsp):
            yield m
        yield [[0, 'trunc', 1]]
        yield [[0, 'trunc', 0]]
        yield [[0, 'append', '00']]
        yield [[0, 'append', rsp[-1:].hex()]]
    for nak in ('00', '01', '04', '05', '0a'):
        yield [[0, 'replace', nak]]
    yield [[0, 'replace', pack]]           # what P expects, forged
    yield [[0, 'replace', pack[0:2]]]
    yield [[0, 'replace', pack + '00']]
    yield [[0, 'replace', pack[2:4] + pack[0:2]]]
    yield [[0, 'timeout']]


def work_ntag(job, acc):
    product = job['product']
    fam = 'NTAG21x'
    if job['what'] == 'truth':
        for kname, key in N_KEYS:
            for pname, poct in N_PASS:
                for ptype in PTYPES:
                    if not has_type(ptype, poct):
                        continue
                    model = nt.Ntag21x(product, pwd=key[0:4], pack=key[4:6])
                    clf, tag = n_activate(model)
                    clf.arm()
                    o = call(tag.authenticate, typed(ptype, poct))
                    want = n_key(poct) == key
                    k = ('ntag', product, kname, pname, ptype)
                    d = dict(part='ntag', what='truth', product=product,
                             tag_key=key.hex(), ptype=ptype,
                             password=poct.hex(), expected=want,
                             observed=show(o),
                             trace=[(hexs(c), hexs(x))
                                    for _, c, _, x in clf.trace])
                    if o[0] == 'exc':
                        acc.fail('%s|authenticate|%s|%s' % (
                            fam, ptype, sig_exc(o[1])), d, k)
                    elif o[1] is not want:
                        acc.fail('%s|authenticate|%s|returned-%r-expected-%r'
                                 % (fam, ptype, o[1], want), d, k)
                    elif tag.is_authenticated is not want or (
                            want and model.state != 'AUTHENTICATED'):
                        # (what the reader does with a tag that refused the
                        # password - e.g. activate it again - is its own
                        # business: only a claimed success must be real)
                        acc.fail('%s|is_authenticated|inconsistent' % fam, d,
                                 k)
                    else:
                        acc.ok(k, nontrivial=not want or pname != kname,
                               outcome=('ntag', product, ptype, want,
                                        model.state))
        acc.run.sample(dict(part='ntag', what='truth', product=product,
                            keys=len(N_KEYS), passwords=len(N_PASS)))
        return
    if job['what'] == 'protect':
        t1, poct = job['ptype'], dkeys(N_PASS)[job['pw']]
        model = nt.Ntag21x(product, ndef=b'\xd1\x01\x03T\x02en')
        clf, tag = n_activate(model)
        clf.arm()
        o = call(tag.protect, typed(t1, poct))
        k0 = ('ntag-protect', product, job['pw'], t1)
        d = dict(part='ntag', what='protect', product=product, ptype=t1,
                 password=poct.hex(), observed=show(o),
                 expected='True, PWD||PACK %s' % n_key(poct).hex(),
                 key_after=model.key().hex(),
                 trace=[(hexs(c), hexs(x)) for _, c, _, x in clf.trace])
        if o[0] == 'exc':
            acc.fail('%s|protect|%s|%s' % (fam, t1, sig_exc(o[1])), d, k0)
            return
        if o[1] is not True:
            acc.fail('%s|protect|%s|returned-%r' % (fam, t1, o[1]), d, k0)
            return
        if model.key() != n_key(poct):
            acc.fail('%s|protect|%s|tag-holds-other-key' % (fam, t1), d, k0)
            return
        acc.ok(k0, outcome=('ntag-protect', product, t1, model.auth0()))
        for pname2, poct2 in N_PASS:
            for t2 in PTYPES:
                if not has_type(t2, poct2):
                    continue
                clf, tag = n_activate(model)
                clf.arm()
                o = call(tag.authenticate, typed(t2, poct2))
                want = n_key(poct2) == n_key(poct)
                k = k0 + (pname2, t2)
                d = dict(part='ntag', what='protect-then-authenticate',
                         product=product, ptype=t1, password=poct.hex(),
                         ptype2=t2, password2=poct2.hex(), expected=want,
                         observed=show(o))
                if o[0] == 'exc':
                    acc.fail('%s|authenticate|%s|%s' % (
                        fam, t2, sig_exc(o[1])), d, k)
                elif o[1] is not want:
                    acc.fail('%s|protect-then-authenticate|%s,%s|returned-%r'
                             '-expected-%r' % (fam, t1, t2, o[1], want), d, k)
                else:
                    acc.ok(k, nontrivial=not want or pname2 != job['pw'],
                           outcome=('ntag-protect-auth', product, t1, t2,
                                    want))
        return
    # tamper: tag key A; passwords: equal, PACK differs, PWD differs
    key = dkeys(N_KEYS)['A']
    for pname in ('A', 'Ak0', 'Ak1', 'Ap0', 'Ap3', 'factory', 'empty'):
        poct = dkeys(N_PASS)[pname]
        model = nt.Ntag21x(product, pwd=key[0:4], pack=key[4:6])
        clf, tag = n_activate(model)
        clf.arm()
        call(tag.authenticate, bytes(poct))
        base_rsp = clf.trace[0][2]
        for mods in ntag_tamper_mods(base_rsp, poct):
            model = nt.Ntag21x(product, pwd=key[0:4], pack=key[4:6])
            clf, tag = n_activate(model)
            clf.arm(mods)
            o = call(tag.authenticate, bytes(poct))
            delivered = clf.trace[-1][3]
            k = ('ntag-tamper', product, pname, repr(mods))
            d = dict(part='ntag', what='tamper', product=product,
                     tag_key=key.hex(), password=poct.hex(), mods=mods,
                     tag_response=hexs(base_rsp), delivered=hexs(delivered),
                     observed=show(o),
                     expected='True only if the delivered response is the '
                     '2 octets %s' % n_key(poct)[4:6].hex())
            if o[0] == 'exc':
                acc.fail('%s|authenticate|tampered|%s' % (
                    fam, sig_exc(o[1])), d, k, devs=len(mods))
            elif o[1] is True and delivered != n_key(poct)[4:6]:
                what = 'NAK' if delivered is not None and len(delivered) == 1 \
                    else 'PACK-len-%d' % len(delivered or b'')
                acc.fail('%s|authenticate|True-with-wrong-%s' % (fam, what),
                         d, k, devs=len(mods))
            elif not mods and o[1] is not (n_key(poct) == key):
                acc.fail('%s|authenticate|bytes|returned-%r' % (fam, o[1]),
                         d, k)
            elif o[1] not in (True, False):
                acc.fail('%s|authenticate|returned-%r' % (fam, o[1]), d, k)
            else:
                acc.ok(k, outcome=('ntag-tamper', product, pname,
                                   'len%d' % len(delivered or b''), o[1]))
    acc.run.sample(dict(part='ntag', what='tamper', product=product,
                        tag_key=key.hex()))


# ------------------------------------------------------------- driver ----
# ------------------------------------------------------- part session ----
# Histories of operations on ONE FeliCa Lite-S tag object (no power cycle, no
# new activation): authenticate with the right / a wrong password, writes with
# and without MAC, reads with MAC, for the three write-counter behaviours of
# the tag model.
SESSION_OPS = ('A+', 'A-', 'W', 'w', 'R')
WCNT_MODES = ('mac', 'nvm', 'all')


def jobs_session(tier):
    depth = 4 if tier == 'thorough' else 3
    for mode in WCNT_MODES:
        for first in SESSION_OPS + ('P',):
            yield dict(part='session', mode=mode, first=first, depth=depth)


def session_run(mode, hist):
    """-> list of violations (signature, detail) for one history."""
    import nfc.tag
    key = A
    wrong = dkeys(F_KEYS)['A1']
    fresh = hist[0] == 'P'
    model = f_model('FelicaLiteS', bytes(16) if fresh else key)
    model.wcnt_mode = mode
    clf, tag = f_activate(model)
    seq = itertools.cycle(CHALLENGES)

    def challenge(n):
        c = next(seq)
        return (c * (n // len(c) + 1))[:n]
    shims.set_urandom(challenge)
    clf.arm()
    valid = False
    out = []
    trace = []
    for k, op in enumerate(hist):
        data = bytes([0x50 + k]) * 16
        before5 = model.user_data(5)
        if op == 'P':
            o = call(tag.protect, key)
            good = o[0] == 'ret' and o[1] is True
            want = 'True'
            valid = False       # the library may or may not keep a session
        elif op == 'A+':
            o = call(tag.authenticate, key)
            good = o[0] == 'ret' and o[1] is True
            want = 'True'
            valid = True
        elif op == 'A-':
            o = call(tag.authenticate, wrong)
            good = o[0] == 'ret' and o[1] is False
            want = 'False'
            valid = False
        elif op == 'W':
            o = call(tag.write_with_mac, data, 5)
            if valid:
                good = o[0] == 'ret' and model.user_data(5) == data
                want = 'written'
            else:
                # no session the harness knows of (the library may hold one:
                # protect() authenticates on the way, an earlier session key
                # may still fit): either written, or refused with the block
                # kept - never a silent loss or a foreign exception
                good = (o[0] == 'ret' and model.user_data(5) == data) or (
                    model.user_data(5) == before5 and o[0] == 'exc' and (
                        isinstance(o[1], RuntimeError) or is_tag_error(o[1])))
                want = 'written, or refused (RuntimeError/TagCommandError) ' \
                       'with the block kept'
        elif op == 'w':
            before6 = model.user_data(6)
            o = call(tag.write_without_mac, data, 6)
            good = o[0] == 'ret' and model.user_data(6) == data
            want = 'written'
            if hist[0] == 'P' and not good:
                # protected: plain writes are refused by the tag
                good = o[0] == 'exc' and is_tag_error(o[1]) and \
                    model.user_data(6) == before6
                want = 'written or TagCommandError (write protected)'
        else:
            o = call(tag.read_with_mac, 5)
            if valid:
                good = o[0] == 'ret' and o[1] is not None and \
                    bytes(o[1]) == model.user_data(5)
                want = 'block 5'
            else:
                good = (o[0] == 'ret' and (o[1] is None or bytes(
                    o[1]) == model.user_data(5))) or (
                    o[0] == 'exc' and (isinstance(o[1], RuntimeError)
                                       or is_tag_error(o[1])))
                want = 'block 5, None, RuntimeError or TagCommandError'
        trace.append((op, show(o)))
        if not good:
            prev = hist[k - 1] if k else 'start'
            sig = 'FelicaLiteS|session|%s after %s|%s' % (
                op, prev, sig_exc(o[1]) if o[0] == 'exc'
                else 'returned-%s' % show(o)[:24])
            out.append((sig, dict(part='session', mode=mode,
                                  history=list(hist), step=k, expected=want,
                                  observed=show(o), trace=trace[:])))
            break
    return out


def work_session(job, acc):
    mode, first, depth = job['mode'], job['first'], job['depth']
    for n in range(0, depth):
        for rest in itertools.product(SESSION_OPS, repeat=n):
            hist = (first,) + rest
            k = ('session', mode, hist)
            bad = session_run(mode, hist)
            for sig, d in bad:
                acc.fail(sig, d, k)
            if not bad:
                acc.ok(k, outcome=('session', mode, hist[-1],
                                   hist.count('A+') > 1))
    acc.run.sample(dict(part='session', mode=mode, first=first, depth=depth))


# ------------------------------------------------------ part nsession ----
# Histories of authenticate / protect on ONE NTAG21x tag object.  The truth
# for every step is the tag model at that moment: the key latched at the last
# selection (what PWD_AUTH is compared with) and whether the tag still answers
# (a refused PWD_AUTH leaves a real tag silent until it is selected again).
NS_PASS = ('A', 'Ak0', 'Ap0')      # tag key, same PWD other PACK, other PWD


def jobs_nsession(tier):
    depth = 4 if tier == 'thorough' else 3
    for product in (('210', '213', '216') if tier == 'thorough'
                    else ('213',)):
        for start in ('A', 'factory'):
            for first in [(op, pw) for op in ('auth', 'protect')
                          for pw in NS_PASS]:
                yield dict(part='nsession', product=product, start=start,
                           first=list(first), depth=depth)


def nsession_run(product, start, hist):
    key0 = dkeys(N_KEYS)[start]
    model = nt.Ntag21x(product, pwd=key0[0:4], pack=key0[4:6],
                       ndef=b'\xd1\x01\x03T\x02en')
    clf, tag = n_activate(model)
    clf.arm()
    trace = []
    for k, (op, pw) in enumerate(hist):
        poct = dkeys(N_PASS)[pw]
        answering = model.state != 'IDLE'
        latched = bytes(model.l_pwd + model.l_pack)
        writable = model.state == 'AUTHENTICATED' or \
            model.l_auth0 > model.cfg + 3
        o = call(getattr(tag, 'authenticate' if op == 'auth' else 'protect'),
                 bytes(poct))
        trace.append((op, pw, show(o), model.state))
        bad = None
        if o[0] == 'exc':
            # a tag that does not answer (or refuses the write) may end the
            # call with a TagCommandError; nothing else is documented
            if not (is_tag_error(o[1]) and (
                    not answering or (op == 'protect' and not writable))):
                bad = sig_exc(o[1])
        elif op == 'auth':
            if o[1] is True and not (
                    model.state == 'AUTHENTICATED' and
                    bytes(model.l_pwd + model.l_pack) == n_key(poct)):
                bad = 'True-but-tag-does-not-hold-the-key'
            elif answering and o[1] is not (latched == n_key(poct)):
                bad = 'returned-%r-expected-%r' % (o[1], latched == n_key(
                    poct))
        else:
            if o[1] is True and model.key() != n_key(poct):
                bad = 'True-but-tag-holds-other-key'
            elif answering and writable and o[1] is not True:
                # every command of protect() is answered and allowed
                bad = 'returned-%r-on-writable-tag' % (o[1],)
        if bad:
            prev = '%s(%s)' % tuple(hist[k - 1]) if k else 'start'
            return [('NTAG21x|nsession|%s(%s) after %s|%s' % (op, pw, prev,
                                                              bad),
                     dict(part='nsession', product=product, start=start,
                          history=[list(h) for h in hist], step=k,
                          tag_answering=answering, latched_key=latched.hex(),
                          observed=show(o), trace=trace[:]))]
    return []


def work_nsession(job, acc):
    product, start, depth = job['product'], job['start'], job['depth']
    ops = [(op, pw) for op in ('auth', 'protect') for pw in NS_PASS]
    for n in range(0, depth):
        for rest in itertools.product(ops, repeat=n):
            hist = (tuple(job['first']),) + rest
            k = ('nsession', product, start, hist)
            bad = nsession_run(product, start, hist)
            for sig, d in bad:
                acc.fail(sig, d, k)
            if not bad:
                acc.ok(k, outcome=('nsession', hist[-1]))
    acc.run.sample(dict(part='nsession', product=product, start=start,
                        first=job['first'], depth=depth))


# --------------------------------------------------------- part strpw ----
# Text passwords with characters above U+007F: "protect(password) followed by
# authenticate with the same password succeeds while any other password
# fails".  No assumption is made about which octets a character stands for;
# the other passwords differ from the protected one as text.
STR_PASS = (
    u'p\xe4ssw\xf6rd-\xfc\xdf\xe9\xe8\xe0\xe7!+tail',
    u'\xe9\xe9\xe9\xe9\xe9\xe9\xe9\xe9\xe9\xe9\xe9\xe9\xe9\xe9\xe9\xe9',
    u'NfcPw\xfc-0123456789',
)


def str_others(s):
    yield 'ascii', u'0123456789abcdef-ascii'
    yield 'utf8-lookalike', s.encode('utf-8').decode('latin-1')
    try:
        yield 'latin1-lookalike', s.encode('latin-1').decode('utf-8')
    except UnicodeError:
        pass
    yield 'first-char', u'\xea' + s[1:]
    yield 'stripped', s.encode('ascii', 'replace').decode('ascii')


def jobs_strpw(tier):
    for product in ('FelicaLite', 'FelicaLiteS', '210', '213', '216'):
        for i in range(len(STR_PASS)):
            yield dict(part='strpw', product=product, pw=i)


def work_strpw(job, acc):
    product, s = job['product'], STR_PASS[job['pw']]
    felica = product.startswith('Felica')
    fam = product if felica else 'NTAG21x'

    def activate():
        if felica:
            clf, tag = f_activate(model)
            set_challenge(CHALLENGES[0])
        else:
            clf, tag = n_activate(model)
        clf.arm()
        return tag
    if felica:
        model = f_model(product, bytes(16))
    else:
        model = nt.Ntag21x(product, ndef=b'\xd1\x01\x03T\x02en')
    k0 = ('strpw', product, job['pw'])
    o = call(activate().protect, s)
    d = dict(part='strpw', product=product, pw=job['pw'], password=repr(s),
             observed=show(o))
    if o[0] == 'exc' or o[1] is not True:
        acc.fail('%s|protect|str-non-ascii|%s' % (fam, sig_exc(
            o[1]) if o[0] == 'exc' else 'returned-%r' % (o[1],)), d, k0)
        return
    cases = [('same', s, True)] + [(n, x, False) for n, x in str_others(s)
                                   if x != s]
    for name, x, want in cases:
        o = call(activate().authenticate, x)
        d = dict(part='strpw', product=product, pw=job['pw'],
                 password=repr(s), then='authenticate', which=name,
                 password2=repr(x), expected=want, observed=show(o))
        if o[0] == 'exc':
            acc.fail('%s|protect-then-authenticate|str-non-ascii|%s|%s' % (
                fam, name, sig_exc(o[1])), d, k0 + (name,))
        elif o[1] is not want:
            acc.fail('%s|protect-then-authenticate|str-non-ascii|%s|returned'
                     '-%r-expected-%r' % (fam, name, o[1], want), d,
                     k0 + (name,))
        else:
            acc.ok(k0 + (name,), outcome=('strpw', fam, name, want))
    acc.run.sample(dict(part='strpw', product=product, password=repr(s)))


PARTS = dict(auth=(jobs_auth, work_auth), protect=(jobs_protect, work_protect),
             session=(jobs_session, work_session),
             nsession=(jobs_nsession, work_nsession),
             strpw=(jobs_strpw, work_strpw),
             read=(jobs_read, work_read), conv=(jobs_conv, work_conv),
             ndef=(jobs_ndef, work_ndef), ntag=(jobs_ntag, work_ntag),
             pairs=(jobs_pairs, work_pairs))
ORDER = ('read', 'pairs', 'ndef', 'conv', 'protect', 'session', 'auth',
         'ntag', 'nsession', 'strpw')


def work(chunk):
    run = Run(PROP)
    run.max_samples = 64
    acc = Acc(run)
    for job in chunk:
        t0 = time.process_time()
        PARTS[job['part']][1](job, acc)
        run.count('jobs:' + job['part'])
        run.count('cpu_s:' + job['part'], time.process_time() - t0)
    return run.export()


def all_jobs(tier, part=None):
    jobs = []
    for name in ORDER:
        if part in (None, name):
            jobs.extend(PARTS[name][0](tier) or ())
    return jobs


def main(tier='quick', seed=0, part=None):
    run = Run(PROP, tier, seed, level='fault_enumeration')
    run.max_samples = 14
    check = fl.selfcheck()
    vectors = fl.vector_check()
    jobs = all_jobs(tier, part)
    if not jobs:
        raise SystemExit('no such part %r for tier %s' % (part, tier))
    # the seed permutes the walk; heavy parts are started first within it
    order = {n: i for i, n in enumerate(ORDER)}
    jobs = sorted(par.shuffled(jobs, seed), key=lambda j: (
        order[j['part']], -len(j.get('sel', ()))))
    samples = {}
    for res in par.pmap(work, [[j] for j in jobs]):
        for s in res['samples']:
            samples.setdefault(s.get('part'), []).append(s)
        res['samples'] = []
        run.merge(res)
    for name in ORDER:
        for s in sorted(samples.get(name, []), key=repr)[:2]:
            run.sample(s, force=True)
    c = run.counters
    for k in list(c):
        if k.startswith('cpu_s:'):
            c[k] = round(c[k], 1)
    run.extra['cpu_s_workers'] = round(sum(
        v for k, v in c.items() if k.startswith('cpu_s:')), 1)
    run.rule = (
        "one case = one execution of the real nfcpy call(s) against a tag "
        "model: (part, product, tag key, password+type, challenge, block "
        "selection, modification list); distinct by that tuple; non-trivial "
        "= a response was modified in transit, or the expected answer is "
        "False, or the password is an alias (empty / longer / parity) of "
        "the key")
    run.extra['bounds'] = dict(
        felica_keys=[n for n, _ in F_KEYS],
        felica_passwords=[n for n, _ in F_PASS],
        ntag_keys=[n for n, _ in N_KEYS],
        ntag_passwords=[n for n, _ in N_PASS],
        password_types=list(PTYPES),
        challenges=[c.hex() for c in CHALLENGES],
        block_selections=len(SELECTIONS), selection_blocks=SEL_BLOCKS,
        read=('quick: key A x (challenge 0 x 41 selections + challenge 1 x 6 '
              'one-block selections) x 2 products; '
              'thorough: keys A,factory,ff x 4 challenges; every response '
              'octet: 8 single-bit flips + substitution by 00 and FF (when '
              'not a no-op / single-bit flip)'),
        conv=('quick: (K,P) in (A,A),(A,A1) challenge 0, (A,AS) challenge 1;'
              ' thorough: 7 (K,P) pairs x 4 challenges; every response of '
              'authenticate + read_with_mac(0): single-bit flips, 00/FF, '
              'response lost'),
        ndef=('quick: key A, challenge 0, sensf system code 88B4 (NDEF read '
              'starts with polling 12FC); thorough: 4 configurations; 52 '
              'octet message in 4 blocks; single-bit flips, 00/FF, lost'),
        pairs=('thorough only: every unordered pair of bit flips within '
               'octets 13..44 (data block + MAC block) of the six one-block '
               'selections, key A, challenge 1; pairs with a header bit are '
               'not enumerated'),
        ntag='3 products x 7 keys x 9 passwords x types; PWD_AUTH response: '
             'all single-bit flips, 00/FF, truncation, extension, NAK '
             '0/1/4/5, ACK, forged PACK, lost',
        jobs=len(jobs), part=part)
    run.extra['des_crosscheck'] = check
    run.extra['repo_test_vectors_reproduced_by_model'] = vectors
    run.assumptions += [
        "tag models sim/felica_lite.py (MAC, MAC_A, session key written from "
        "the FeliCa Lite-S user's manual on 64-bit integers; shares only "
        "pyDes.des single-block ECB with nfcpy) and sim/ntag21x.py are the "
        "trusted base; the MAC model reproduces the %d MAC/MAC_A values "
        "found in /repo/tests/test_tag_tt3_sony.py (library-generated "
        "transcripts, no third-party vectors were available offline) and "
        "interoperates with nfcpy's mutual authentication" % vectors,
        "DES primitive: known-answer vectors pass; openssl: %s"
        % check['openssl'],
        "key equality for FeliCa is equality of the 3DES key, i.e. modulo "
        "the 16 DES parity bits",
        "NTAG21x configuration is latched at activation; AUTHLIM not modelled",
        "'cannot be fooled' is decided for single-bit flips, 00/FF octet "
        "substitutions, lost responses (and double flips of data+MAC in "
        "thorough), not for an adaptive forger; a forged PACK is accepted by "
        "design of PWD_AUTH and is counted as an observation",
        "read part reuses one authenticated session for all modifications of "
        "a selection (an unmodified read is re-checked every 257 cases); "
        "conv and ndef parts use a fresh tag and Tag object per case",
    ]
    return run.finish(exhaustive=True)


# ------------------------------------------------------------- replay ----
def replay(doc):
    d = doc['detail']
    run = Run(PROP)
    acc = Acc(run)
    part = d['part']
    print('replaying %s case of signature %s' % (part, doc['signature']))
    if part in ('read', 'pairs'):
        job = d['job']
        mods = d['mods']
        tamper_reads(job, acc, lambda rsp: iter([mods]), part)
    elif part == 'conv':
        job = dict(d['job'])
        product, ch = job['product'], CHALLENGES[job['ch']]
        key, poct = dkeys(F_KEYS)[job['key']], dkeys(F_PASS)[job['pw']]
        base, o, n_auth0, cases = conv_cases(product, key, poct, ch)
        model, clf, o1, o2, _ = conv_run(product, key, poct, ch, d['mods'])
        for sig, cls in conv_judge(product, key, poct, base, n_auth0,
                                   d['mods'], o1, o2, model.user_data(0)):
            if sig:
                acc.fail(sig, dict(authenticate=show(o1),
                                   read_with_mac=o2 and show(o2)), 'replay')
    elif part == 'ndef':
        job = d['job']
        product, ch = job['product'], CHALLENGES[job['ch']]
        key = dkeys(F_KEYS)[job['key']]
        try:
            model, clf, o = ndef_run(product, key, ch, job['sys'], [])
            base = {i: (c, r) for i, c, r, _ in clf.trace}
            mods = d.get('mods', [])
            model, clf, o = ndef_run(product, key, ch, job['sys'], mods)
            sig, cls = ndef_judge(product, o, mods_region(mods, base))
            if sig:
                acc.fail(sig, dict(observed=show(o)), 'replay')
        except SetupFailed as e:
            acc.fail(e.args[0], e.args[1], 'replay')
    elif part == 'auth':
        v, cls = case_auth(d['product'], bytes.fromhex(d['tag_key']),
                           d['ptype'], bytes.fromhex(d['password']),
                           bytes.fromhex(d['challenge']))
        if v:
            acc.fail(v[0], v[1], 'replay')
    elif part == 'protect':
        pw = [n for n, o in F_PASS if o.hex() == d['password']][0]
        work_protect(dict(part='protect', product=d['product'], pw=pw,
                          ptype=d['ptype'], start=d.get('start')), acc)
    elif part == 'ntag':
        job = dict(part='ntag', product=d['product'], what=d['what'])
        if d['what'].startswith('protect'):
            job['what'] = 'protect'
            job['pw'] = [n for n, o in N_PASS if o.hex() == d['password']][0]
            job['ptype'] = d['ptype']
        work_ntag(job, acc)
    elif part == 'session':
        for sig, dd in session_run(d['mode'], tuple(d['history'])):
            acc.fail(sig, dd, 'replay')
    elif part == 'nsession':
        hist = tuple((op, pw) for op, pw in d['history'])
        for sig, dd in nsession_run(d['product'], d['start'], hist):
            acc.fail(sig, dd, 'replay')
    elif part == 'strpw':
        work_strpw(dict(part='strpw', product=d['product'], pw=d['pw']), acc)
    else:
        raise SystemExit('unknown part %r' % part)
    hit = run.failures.get(doc['signature'])
    for sig, f in sorted(run.failures.items()):
        print('%s %s' % ('REPRODUCED' if sig == doc['signature']
                         else 'also failing:', sig))
        if sig == doc['signature']:
            for k in ('observed', 'authenticate', 'read_with_mac',
                      'expected'):
                if isinstance(f.detail, dict) and f.detail.get(k):
                    print('  %s: %s' % (k, f.detail[k]))
    if hit is None:
        print('not reproduced: the case satisfies the oracle now')
        return 0
    return 1
