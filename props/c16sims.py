"""Simulators used only by C16 (props/c16.py), all with the TagSim interface
of sim/tagsim.py (log, hook, image):

UlcSim            Type2TagSim + the second step of the MIFARE Ultralight C
                  3DES authentication (AFh), key taken from pages 44..47
ModelSim          adapter that puts the C20 tag models (sim/ntag21x.Ntag21x,
                  sim/felica_lite.FelicaLiteTag), which only offer
                  command(frame), behind the TagSim interface
FelicaStandardSim Type3TagSim + Request Service, Request Response, Search
                  Service Code, Request System Code of a FeliCa Standard card
                  with one system (12FCh), one area and the two NDEF services

nfc and pyDes are imported lazily (after mc.shims.import_nfc()).
"""
from sim import t2t, t3t
from sim.tagsim import TagSim


# ---------------------------------------------------------------- UL-C ----
def _rotl(b):
    return bytes(b[1:]) + bytes(b[0:1])


class UlcSim(t2t.Type2TagSim):
    """MIFARE Ultralight C, 48 pages.  AUTHENTICATE (1A 00) answers
    AF || ek(RndB) (IV 0); AF || ek(RndA || RndB') is checked with the key in
    pages 44..47 (stored as nfcpy's protect() writes it: each key half byte
    reversed) and answered 00 || ek(RndA').  Any AFh frame outside a running
    authentication is an unsupported command (tag goes mute).  RndB is a
    constant: the retransmission of 1A 00 is answered identically."""
    KIND = 'T2T-ULC'
    RNDB = bytes.fromhex('51E764602678DF2B')

    def __init__(self, mem, **kw):
        assert len(mem) == 192
        kw['ulc'] = True
        t2t.Type2TagSim.__init__(self, mem, **kw)

    def power_cycle(self):
        t2t.Type2TagSim.power_cycle(self)
        self.authenticated = False
        self._ek_rndb = None

    def key(self):
        m = self.mem
        return bytes(m[176:184][::-1]) + bytes(m[184:192][::-1])

    def execute(self, cmd, ctx):
        from pyDes import triple_des, CBC
        ctx.name = self.name_of(cmd)
        if self.mute or not cmd:
            return None
        if cmd == b'\x1A\x00':
            self.sector_pending = False
            self.auth_pending = True
            ek = triple_des(self.key(), CBC, bytes(8)).encrypt(self.RNDB)
            self._ek_rndb = bytes(ek)
            return b'\xAF' + self._ek_rndb
        if cmd[0] == 0xAF:
            pending, self.auth_pending = self.auth_pending, False
            if not pending or len(cmd) != 17:
                return self._unsupported()
            m2 = bytes(cmd[1:17])
            plain = triple_des(self.key(), CBC, self._ek_rndb).decrypt(m2)
            ra, rb1 = plain[0:8], plain[8:16]
            if rb1 != _rotl(self.RNDB):
                return self._nak()
            self.authenticated = True
            m3 = triple_des(self.key(), CBC, m2[8:16]).encrypt(_rotl(ra))
            return b'\x00' + bytes(m3)
        self.auth_pending = False
        return t2t.Type2TagSim.execute(self, cmd, ctx)


# ------------------------------------------------------- model adapter ----
class ModelSim(TagSim):
    """sim/ntag21x.Ntag21x ('ntag') or sim/felica_lite.FelicaLiteTag
    ('felica') behind the TagSim interface."""

    def __init__(self, model, kind, system_code=0x88B4):
        TagSim.__init__(self)
        assert kind in ('ntag', 'felica')
        self.model = model
        self.kind = kind
        self.KIND = 'T2T-NTAG21x' if kind == 'ntag' else (
            'T3T-FeliCaLiteS' if model.lite_s else 'T3T-FeliCaLite')
        self.system_code = system_code
        model.log = _NoLog()

    # the persistent memory of the model
    def image(self):
        if self.kind == 'ntag':
            return {'mem': bytes(self.model.mem)}
        from sim import felica_lite as fl
        return {'%02x' % bn: bytes(v) for bn, v in self.model.mem.items()
                if bn != fl.STATE}

    @property
    def mem(self):
        return self.model.mem if self.kind == 'ntag' else bytearray()

    @mem.setter
    def mem(self, v):
        pass

    def power_cycle(self):
        if self.kind == 'ntag':
            self.model.activate()
        else:
            self.model.power_on()

    def target(self):
        import nfc.clf
        if self.kind == 'ntag':
            return nfc.clf.RemoteTarget(
                '106A', sens_res=bytearray(b'\x44\x00'),
                sel_res=bytearray(b'\x00'),
                sdd_res=bytearray(self.model.sdd_res()))
        return nfc.clf.RemoteTarget(
            '212F', sensf_res=bytearray(
                self.model.sensf_res(self.system_code)))

    def name_of(self, cmd):
        if not cmd:
            return 'EMPTY'
        if self.kind == 'ntag':
            return {0x30: 'READ', 0xA2: 'WRITE', 0x60: 'GET_VERSION',
                    0x1A: 'AUTHENTICATE', 0x1B: 'PWD_AUTH', 0x3C: 'READ_SIG',
                    0x3A: 'FAST_READ'}.get(cmd[0], 'UNKNOWN')
        if len(cmd) < 2:
            return 'SHORT'
        if cmd[1] == 0x08 and len(cmd) > 13 and cmd[13] == 2:
            return 'WRITE_MAC'
        return {0: 'POLLING', 6: 'READ', 8: 'WRITE'}.get(cmd[1], 'UNKNOWN')

    def execute(self, cmd, ctx):
        ctx.name = self.name_of(cmd)
        before = self.image()
        nw = len(self.model.writes)
        rsp = self.model.command(cmd)
        if len(self.model.writes) != nw or self.image() != before:
            ctx.changed = True
        return rsp


class _NoLog(object):
    def append(self, x):
        pass


# --------------------------------------------------- FeliCa Standard ----
class FelicaStandardSim(t3t.Type3TagSim):
    """A FeliCa Standard card (IC code 20h, RC-S962) with a single system
    12FCh, area 0000h (end FFFEh) and the services 0009h / 000Bh over the
    block memory of Type3TagSim.  Commands beyond Type3TagSim:
      02 Request Service      -> key version 0000h (existing) / FFFFh
      04 Request Response     -> mode 0
      0A Search Service Code  -> index 0 area, 1 and 2 services, else FFFFh
      0C Request System Code  -> [12FCh]"""
    KIND = 'T3T-FeliCaStandard'
    TREE = (b'\x00\x00\xFE\xFF', b'\x09\x00', b'\x0B\x00')

    def __init__(self, mem, nbr=1, nbw=1):
        t3t.Type3TagSim.__init__(
            self, mem, nbr=nbr, nbw=nbw,
            idm=bytes.fromhex('012E3D4C5B6A7988'),
            pmm=bytes.fromhex('01204B024F4993FF'))

    def name_of(self, cmd):
        if len(cmd) < 2:
            return 'SHORT'
        return {0: 'POLLING', 6: 'READ', 8: 'WRITE', 2: 'REQUEST_SERVICE',
                4: 'REQUEST_RESPONSE', 0x0A: 'SEARCH_SERVICE_CODE',
                0x0C: 'REQUEST_SYSTEM_CODE'}.get(cmd[1], 'UNKNOWN')

    def execute(self, cmd, ctx):
        ctx.name = self.name_of(cmd)
        if len(cmd) >= 10 and cmd[0] == len(cmd) and cmd[2:10] == self.idm \
                and cmd[1] in (0x02, 0x04, 0x0A, 0x0C):
            code, p = cmd[1], cmd[10:]
            if code == 0x02:
                if len(p) < 1 or len(p) != 1 + 2 * p[0] or not 1 <= p[0] <= 32:
                    return None
                out = bytearray([p[0]])
                for i in range(p[0]):
                    sc = bytes(p[1 + 2 * i:3 + 2 * i])
                    known = sc in (b'\x09\x00', b'\x0B\x00', b'\x00\x00')
                    out += b'\x00\x00' if known else b'\xFF\xFF'
                body = bytes(out)
            elif code == 0x04:
                if p:
                    return None
                body = b'\x00'
            elif code == 0x0A:
                if len(p) != 2:
                    return None
                idx = p[0] | p[1] << 8
                body = self.TREE[idx] if idx < len(self.TREE) else b'\xFF\xFF'
            else:
                if p:
                    return None
                body = b'\x01' + self.sys.to_bytes(2, 'big')
            return bytes([10 + len(body), code + 1]) + self.idm + body
        return t3t.Type3TagSim.execute(self, cmd, ctx)


class FelicaStandard2Sim(FelicaStandardSim):
    """The same card with a second system 8008h (one area, no services).
    A system is addressed by the upper nibble of IDm[0]; Polling selects by
    system code (FFFFh: the first system).  Read / Write / Request Service
    with the IDm of system 1 find no NDEF service there."""
    KIND = 'T3T-FeliCaStandard-2systems'
    SYSTEMS = (0x12FC, 0x8008)

    def idm_of(self, k):
        return bytes([self.idm[0] & 0x0F | k << 4]) + self.idm[1:]

    def execute(self, cmd, ctx):
        ctx.name = self.name_of(cmd)
        if len(cmd) < 2 or cmd[0] != len(cmd):
            return None
        code = cmd[1]
        if code == 0x00:
            if len(cmd) != 6:
                return None
            for k, sc in enumerate(self.SYSTEMS):
                if cmd[2] in (0xFF, sc >> 8) and cmd[3] in (0xFF, sc & 255):
                    rsp = self.idm_of(k) + self.pmm
                    if cmd[4] == 1:
                        rsp += sc.to_bytes(2, 'big')
                    elif cmd[4] == 2:
                        rsp += b'\x00\x83'
                    return bytes([2 + len(rsp), 0x01]) + rsp
            return None
        if len(cmd) >= 10 and bytes(cmd[2:10]) == self.idm_of(1):
            idm1 = self.idm_of(1)
            p = cmd[10:]
            if code in (0x06, 0x08):
                # service not found in this system: status flag 1 = FFh,
                # status flag 2 = A6h (illegal service code list)
                return bytes([12, code + 1]) + idm1 + b'\xFF\xA6'
            if code == 0x02:
                if len(p) < 1 or len(p) != 1 + 2 * p[0]:
                    return None
                body = bytes([p[0]]) + b''.join(
                    b'\x00\x00' if bytes(p[1 + 2 * i:3 + 2 * i]) ==
                    b'\x00\x00' else b'\xFF\xFF' for i in range(p[0]))
            elif code == 0x04:
                body = b'\x00'
            elif code == 0x0A:
                if len(p) != 2:
                    return None
                idx = p[0] | p[1] << 8
                body = b'\x00\x00\xFE\xFF' if idx == 0 else b'\xFF\xFF'
            elif code == 0x0C:
                body = bytes([len(self.SYSTEMS)]) + b''.join(
                    sc.to_bytes(2, 'big') for sc in self.SYSTEMS)
            else:
                return None
            return bytes([10 + len(body), code + 1]) + idm1 + body
        if code == 0x0C and len(cmd) == 10 and bytes(cmd[2:10]) == self.idm:
            body = bytes([len(self.SYSTEMS)]) + b''.join(
                sc.to_bytes(2, 'big') for sc in self.SYSTEMS)
            return bytes([10 + len(body), code + 1]) + self.idm + body
        return FelicaStandardSim.execute(self, cmd, ctx)
