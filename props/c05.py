"""C05 - LLCP connections deliver in order, exactly once, within the window.

Part 'sched' (this file): two real LogicalLinkControllers run their link loops
in virtual threads over a rendezvous MAC pair; application threads use
blocking send/recv on one data link connection (both directions at once in
some scenarios, a third thread toggling receiver-busy or closing).  Every
schedule with <= P deviations is executed; a wire tap checks sequence numbers
and the send window against a reference model, the delivered lists are
compared with the sent lists.

Part 'bfs' (props/c05_bfs.py): explicit-state search over non-blocking
histories on the same two controllers without threads.
"""
from mc.evidence import Run, sig_exc
from mc import par, sched, explore, trace
from sim import pairmac
from ref import llcp_codec

PROP = 'C05'
DLC = 2


class Wire(object):
    """Reference model of the window on the wire (DESIGN A.5): per direction
    the I PDUs seen minus the highest N(R) seen in the other direction."""

    def __init__(self, rw):
        self.rw = rw                  # 'i2t' -> RW announced by the receiver
        self.next_ns = {'i2t': 0, 't2i': 0}
        self.acked = {'i2t': 0, 't2i': 0}     # last N(R) received by sender
        self.bad = []
        self.ipdus = {'i2t': 0, 't2i': 0}
        self.max_out = {'i2t': 0, 't2i': 0}

    def tap(self, direction, frame):
        p = llcp_codec.read(frame)
        if p is None:
            self.bad.append(('unreadable-frame', direction, frame.hex()))
            return
        for q in (p[3] if p[0] == 'AGF' else [p]):
            self.pdu(direction, q)

    def pdu(self, d, q):
        other = 't2i' if d == 'i2t' else 'i2t'
        if q[0] == 'FRMR':
            self.bad.append(('frmr-on-wire', d, q))
        if q[0] == 'CC':
            # a new data link connection starts with all state variables 0
            # (scenarios use one connection at a time)
            self.next_ns = {'i2t': 0, 't2i': 0}
            self.acked = {'i2t': 0, 't2i': 0}
            self.cc_seen = getattr(self, 'cc_seen', 0) + 1
        if q[0] == 'I' and getattr(self, 'cc_seen', 0) >= 2 and \
                getattr(self, 'watch', None) is not None and \
                not self.watch.get('accept2_returned'):
            # data of the second connection is on the wire while the server
            # application is still inside accept() (CC already sent)
            self.watch['data_before_accept_returned'] = True
        if q[0] == 'I':
            ns, nr = q[3], q[4]
            if ns != self.next_ns[d]:
                self.bad.append(('wrong-ns', d, (ns, self.next_ns[d])))
            self.next_ns[d] = (ns + 1) % 16
            self.ipdus[d] += 1
            out = (self.next_ns[d] - self.acked[d]) % 16
            self.max_out[d] = max(self.max_out[d], out)
            if out > self.rw[d]:
                self.bad.append(('window-exceeded', d, (out, self.rw[d])))
            self.ack(other, nr)
        if q[0] in ('RR', 'RNR'):
            self.ack(other, q[3])

    def ack(self, d, nr):
        # N(R) from the receiver acknowledges the sender's direction d
        sent = (self.next_ns[d] - self.acked[d]) % 16
        adv = (nr - self.acked[d]) % 16
        if adv > sent:
            self.bad.append(('ack-beyond-sent', d, (nr, self.acked[d],
                                                    self.next_ns[d])))
        else:
            self.acked[d] = nr


def message(direction, i, size):
    head = ('%s%02d:' % (direction, i)).encode()
    return (head + bytes((i * 31 + k) & 0xFF for k in range(size)))[:max(
        size, len(head))]


def execute(cfg, chooser, want_trace=False):
    import nfc.llcp
    import nfc.llcp.llc as llc
    trace.install()
    s = sched.Sched(chooser, max_steps=20000, max_time=1000.0 + 60,
                    trace=want_trace, free_switch=False)
    s.traced = frozenset(cfg.get('traced', ()))
    s.quiet = True
    rw_a, rw_b = cfg['rw']            # receive windows of A's and B's socket
    wire = Wire({'i2t': rw_b, 't2i': rw_a})
    pair = pairmac.Pair(tap=wire.tap)
    mi, mt = pairmac.make(pair)
    A = llc.LogicalLinkController(miu=cfg['miu'], lto=500, agf=cfg['agf'],
                                  sec=False)
    B = llc.LogicalLinkController(miu=cfg['miu'], lto=500, agf=cfg['agf'],
                                  sec=False)
    A.activate(mi)
    B.activate(mt)
    A.activate(mi)
    assert A.mac is mi and B.mac is mt
    n_ab, n_ba = cfg['n']
    out = dict(got_b=[], got_a=[], got_b2=[], threads={}, est=0)
    wire.watch = out
    stop = [False]
    srv = nfc.llcp.Socket(B, DLC)
    srv.setsockopt(nfc.llcp.SO_RCVBUF, rw_b)
    srv.setsockopt(nfc.llcp.SO_RCVMIU, cfg['miu'])
    srv.bind('urn:nfc:sn:svc')
    srv.listen(1)
    cli = nfc.llcp.Socket(A, DLC)
    cli.setsockopt(nfc.llcp.SO_RCVBUF, rw_a)
    cli.setsockopt(nfc.llcp.SO_RCVMIU, cfg['miu'])
    socks = {}

    def established():
        out['est'] += 1
        if out['est'] == 2:
            s.quiet = False

    def guarded(name, fn):
        def body():
            try:
                out['threads'][name] = ('ret', fn())
            except nfc.llcp.Error as e:
                out['threads'][name] = ('llcp.Error', e.errno)
            except sched.Abort:
                raise
            except BaseException as e:
                out['threads'][name] = ('exc', e)
        return body

    def wait_est():
        if out['est'] < 2:
            sched.S.block(lambda: out['est'] >= 2, None, 'wait', 'est')

    cli_addr = []

    def a_main():
        cli.connect('urn:nfc:sn:svc')
        cli_addr.append(cli.getsockname())
        socks['a'] = cli
        if cfg.get('extra') == 'server-first':
            # the client only listens: whatever the server sent after its
            # accept() returned must arrive
            for i in range(n_ba):
                m = cli.recv()
                out['got_a'].append(m)
                if m is None:
                    return 'closed@%d' % i
            return 'rcvd'
        established()
        wait_est()
        mine = range(n_ab)
        if cfg.get('extra') == 'two-senders':
            mine = range(0, n_ab // 2)        # a second thread sends the rest
        for i in mine:
            if not cli.send(message('a', i, cfg['size'])):
                return 'send-false@%d' % i
        if cfg.get('extra') == 'close':
            cli.close()          # messages accepted before must still arrive
        if cfg.get('extra') == 'reconnect':
            # the first connection is closed once its messages have arrived;
            # a new socket (it gets the address just released) connects to
            # the same service and sends the second batch
            sched.S.block(lambda: len(out['got_b']) >= n_ab, None, 'wait',
                          'batch1')
            cli.close()
            cli2 = nfc.llcp.Socket(A, DLC)
            cli2.setsockopt(nfc.llcp.SO_RCVBUF, rw_a)
            cli2.setsockopt(nfc.llcp.SO_RCVMIU, cfg['miu'])
            cli2.connect('urn:nfc:sn:svc')
            out['addr'] = (cli_addr[0], cli2.getsockname())
            for i in range(n_ab, 2 * n_ab):
                if not cli2.send(message('a', i, cfg['size'])):
                    return 'send-false@%d' % i
        return 'sent'

    def b_main():
        conn = srv.accept()
        socks['b'] = conn
        if cfg.get('extra') == 'server-first':
            # the server speaks first, directly after accept() returned
            # (the CC may still be queued)
            for i in range(n_ba):
                if not conn.send(message('b', i, cfg['size'])):
                    return 'send-false@%d' % i
            return 'sent'
        established()
        wait_est()
        for i in range(n_ab):
            m = conn.recv()
            out['got_b'].append(m)
            if m is None:
                return 'closed@%d' % i
        if cfg.get('extra') == 'close':
            out['after_close'] = conn.recv()      # None once the peer closed
        if cfg.get('extra') == 'reconnect':
            # the accepted socket of the first connection is kept (not
            # closed) while the second connection is accepted and used
            conn2 = srv.accept()
            out['accept2_returned'] = True
            for i in range(n_ab):
                m = conn2.recv()
                out['got_b2'].append(m)
                if m is None:
                    return 'closed2@%d' % i
        return 'rcvd'

    def a_second():
        wait_est()
        for i in range(n_ab // 2, n_ab):
            if not cli.send(message('a', i, cfg['size'])):
                return 'send-false@%d' % i
        return 'sent'

    def b_send():
        wait_est()
        conn = socks['b']
        for i in range(n_ba):
            if not conn.send(message('b', i, cfg['size'])):
                return 'send-false@%d' % i
        return 'sent'

    def a_recv():
        wait_est()
        for i in range(n_ba):
            m = cli.recv()
            out['got_a'].append(m)
            if m is None:
                return 'closed@%d' % i
        return 'rcvd'

    def b_busy():
        wait_est()
        conn = socks['b']
        conn.setsockopt(nfc.llcp.SO_RCVBSY, True)
        sched.vsleep(0.004)
        conn.setsockopt(nfc.llcp.SO_RCVBSY, False)
        return 'toggled'

    s.spawn(lambda: A.run(terminate=lambda: stop[0]), 'llcA', daemon=True)
    s.spawn(lambda: B.run(terminate=lambda: stop[0]), 'llcB', daemon=True)
    s.spawn(guarded('a_send', a_main), 'a_send')
    s.spawn(guarded('b_recv', b_main), 'b_recv')
    if cfg.get('extra') == 'server-first':
        s.quiet = False         # schedules of the connection set-up count
    elif n_ba:
        s.spawn(guarded('b_send', b_send), 'b_send')
        s.spawn(guarded('a_recv', a_recv), 'a_recv')
    if cfg.get('extra') == 'busy':
        s.spawn(guarded('b_busy', b_busy), 'b_busy')
    if cfg.get('extra') == 'two-senders':
        s.spawn(guarded('a_send2', a_second), 'a_send2')
    s.run()
    return s, out, wire


def judge(cfg, s, out, wire):
    bad = []
    n_ab, n_ba = cfg['n']
    want_b = [message('a', i, cfg['size']) for i in range(n_ab)]
    want_a = [message('b', i, cfg['size']) for i in range(n_ba)]
    if s.verdict != 'finished':
        bad.append(('stuck|%s|%s' % (s.verdict, ','.join(
            sorted(n for n, st in s.stuck()))), dict(stuck=s.stuck())))
    elif cfg.get('extra') == 'two-senders':
        # two threads send on one socket: every message exactly once, each
        # thread's own messages in its sending order
        got = out['got_b']
        half = n_ab // 2
        pos = {m: i for i, m in enumerate(got)}
        ok = sorted(map(repr, got)) == sorted(map(repr, want_b)) and all(
            pos[want_b[i]] < pos[want_b[i + 1]]
            for i in list(range(0, half - 1)) + list(range(half, n_ab - 1)))
        if not ok:
            bad.append(('delivery|a->b|two-senders|%s' % delivery_class(
                got, want_b), dict(got=got, want=want_b)))
    else:
        if out['got_b'] != want_b:
            bad.append(('delivery|a->b|%s' % delivery_class(out['got_b'],
                                                             want_b),
                        dict(got=out['got_b'], want=want_b)))
        if out['got_a'] != want_a:
            bad.append(('delivery|b->a|%s' % delivery_class(out['got_a'],
                                                             want_a),
                        dict(got=out['got_a'], want=want_a)))
    if cfg.get('extra') == 'reconnect' and s.verdict == 'finished':
        want_b2 = [message('a', i, cfg['size']) for i in range(n_ab, 2 * n_ab)]
        if out['got_b2'] != want_b2:
            bad.append(('delivery|a->b|second-connection|%s' % delivery_class(
                out['got_b2'], want_b2), dict(got=out['got_b2'], want=want_b2,
                                              addresses=out.get('addr'))))
    if cfg.get('extra') == 'close' and s.verdict == 'finished' and \
            out.get('after_close', None) is not None:
        bad.append(('delivery|after-close|data-after-disconnect',
                    dict(got=out.get('after_close'))))
    for name, res in sorted(out['threads'].items()):
        if res[0] == 'exc':
            bad.append(('thread-raises|%s|%s' % (name, sig_exc(res[1])),
                        dict(error=repr(res[1]))))
        elif res[0] == 'llcp.Error':
            bad.append(('thread-error|%s|errno=%s' % (name, res[1]), {}))
    for t in s.threads:
        if t.name.startswith('llc') and t.exc is not None:
            bad.append(('link-loop-raises|%s' % sig_exc(t.exc),
                        dict(error=repr(t.exc))))
    for kind, d, info in wire.bad[:3]:
        bad.append(('wire|%s' % kind, dict(direction=d, info=info)))
    if cfg.get('extra') == 'reconnect' and out.get(
            'data_before_accept_returned'):
        # the specific history: the peer's first I PDUs of the second
        # connection arrived while the server thread was between
        # DataLinkConnection.accept() (CC queued) and the registration of the
        # new socket in LogicalLinkController.accept()
        bad = [('reconnect|data-before-accept-registered|' + sig, det)
               for sig, det in bad]
    return bad


def delivery_class(got, want):
    if len(got) < len(want):
        return 'missing'
    if len(got) > len(want):
        return 'extra'
    if sorted(map(repr, got)) == sorted(map(repr, want)):
        return 'reordered'
    if len(set(map(repr, got))) < len(got):
        return 'duplicate'
    return 'corrupt'


def run_cfg(arg):
    """arg = (cfg, bound, cap, start): explore one first-level subtree
    (start = (prefix, used)), or with start None the root execution only,
    returning the list of subtrees."""
    cfg, bound, cap, start = arg
    run = Run(PROP)
    stats = explore.Stats()

    def visit(ch, res):
        s, out, wire = res
        bad = judge(cfg, s, out, wire)
        key = (repr(sorted(cfg.items())), tuple(ch.choices))
        run.outcome((s.verdict, tuple(sorted(
            (n, r[1] if r[0] == 'ret' else r[0])
            for n, r in out['threads'].items())),
            wire.max_out['i2t'], wire.max_out['t2i']))
        if not bad:
            run.ok(key, nontrivial=wire.ipdus['i2t'] > 0)
        seen = set()
        for sig, detail in bad:
            if sig not in seen:
                seen.add(sig)
                run.fail(sig, dict(detail, cfg=cfg, choices=ch.choices), key,
                         deviations=ch.cost)
        if len(seen) > 1:
            run.evaluations -= len(seen) - 1
        run.count('max_outstanding_%d' % max(wire.max_out.values()))

    explore.explore(lambda ch: execute(cfg, ch), bound, visit, max_execs=cap,
                    stats=stats, start=start, children_only=start is None)
    run.count('executions', stats.executions)
    run.count('choice_points', stats.choice_points)
    run.count('capped_subtrees', 1 if stats.capped else 0)
    if start is None:
        run.sample(dict(cfg=cfg, first_level_subtrees=len(stats.children),
                        choice_points_default_schedule=stats.max_depth))
    out = run.export()
    out['children'] = getattr(stats, 'children', [])
    out['cfg'] = cfg
    return out


def configs(tier):
    out = []
    traced = ['tco.state']
    if tier != 'thorough':
        for rw, n, agf in (((1, 1), (3, 0), True), ((2, 2), (2, 2), True),
                           ((2, 1), (3, 0), False), ((1, 2), (2, 2), False)):
            out.append(dict(rw=rw, n=n, agf=agf, miu=128, size=20,
                            traced=traced))
        out.append(dict(rw=(1, 1), n=(3, 0), agf=True, miu=128, size=128,
                        extra='busy', traced=traced))
        out.append(dict(rw=(2, 1), n=(3, 0), agf=True, miu=128, size=20,
                        extra='close', traced=traced))
        out.append(dict(rw=(1, 1), n=(4, 0), agf=True, miu=128, size=20,
                        extra='two-senders', traced=traced))
        # (window 2: the second sender may take its sequence number while the
        # first has not queued its PDU yet)
        out.append(dict(rw=(1, 2), n=(4, 0), agf=False, miu=128, size=20,
                        extra='two-senders', traced=traced))
        out.append(dict(rw=(2, 2), n=(2, 0), agf=True, miu=128, size=20,
                        extra='reconnect', traced=traced, bound=1))
        for agf in (True, False):
            out.append(dict(rw=(1, 1), n=(0, 2), agf=agf, miu=128, size=20,
                            extra='server-first', traced=traced, bound=1))
        return out
    for rw in ((1, 1), (2, 1), (1, 2), (2, 2)):
        for n in ((3, 0), (2, 2)):
            for agf in (True, False):
                out.append(dict(rw=rw, n=n, agf=agf, miu=128, size=20,
                                traced=traced))
    for rw in ((1, 1), (2, 2)):
        out.append(dict(rw=rw, n=(3, 0), agf=True, miu=128, size=128,
                        extra='busy', traced=traced))
    for rw in ((1, 1), (2, 2)):
        out.append(dict(rw=rw, n=(3, 0), agf=rw == (1, 1), miu=128, size=20,
                        extra='close', traced=traced))
        out.append(dict(rw=rw, n=(4, 0), agf=rw == (2, 2), miu=128, size=20,
                        extra='two-senders', traced=traced))
    for rw in ((1, 1), (2, 2)):
        out.append(dict(rw=rw, n=(2, 0), agf=rw == (2, 2), miu=128, size=20,
                        extra='reconnect', traced=traced))
    for rw in ((1, 1), (2, 2)):
        for agf in (True, False):
            out.append(dict(rw=rw, n=(0, 2), agf=agf, miu=128, size=20,
                            extra='server-first', traced=traced))
    out.append(dict(rw=(2, 2), n=(4, 3), agf=True, miu=129, size=129,
                    traced=traced))
    out.append(dict(rw=(3, 3), n=(4, 0), agf=False, miu=128, size=1,
                    traced=traced))
    # one deviation more on the two smallest scenarios
    out.append(dict(rw=(1, 1), n=(2, 0), agf=True, miu=128, size=20,
                    traced=traced, bound=3))
    out.append(dict(rw=(1, 1), n=(1, 1), agf=False, miu=128, size=20,
                    traced=traced, bound=3))
    return out


def main(tier='quick', seed=0, part=None):
    from props import c05_bfs
    run = Run(PROP, tier, seed, level='model_checking')
    bfs_cov = {}
    if part in (None, 'bfs'):
        bfs_cov = c05_bfs.run_into(run, tier, seed)
    sched_cfgs = []
    bound = 2
    cap = 400000 if tier == 'thorough' else 30000
    if part in (None, 'sched'):
        sched_cfgs = configs(tier)
        tasks = []
        for res in par.pmap(run_cfg, [(c, c.get('bound', bound), cap, None)
                                      for c in sched_cfgs]):
            cfg = res.pop('cfg')
            for child in res.pop('children'):
                tasks.append((cfg, cfg.get('bound', bound), cap, child))
            run.merge(res)
        for res in par.pmap(run_cfg, par.shuffled(tasks, seed), chunksize=4):
            res.pop('cfg')
            res.pop('children')
            run.merge(res)
    capped = run.counters.get('capped_subtrees', 0)
    run.rule = (
        "bfs: every history of {send, recv, poll acks, busy on/off, A->B, "
        "B->A exchange, close} up to the message budget, states deduplicated "
        "by a canonical dump of both controllers; sched: scenario = RW pair x "
        "message counts per direction x aggregation x optional busy-toggling "
        "thread / close / two senders / reconnect (second connection from the "
        "address just released), every schedule with <= %d deviations (scenario "
        "'reconnect' in the quick tier: 1) from the default schedule "
        "(any non-default thread choice or a timer landing first) after the "
        "connection is established; distinct = distinct canonical state / (scenario, choice "
        "list); non-trivial = at least one I PDU crossed the link" % bound)
    run.assumptions += [
        "NFC-DEP is replaced by a rendezvous MAC pair (sim/pairmac.py)",
        "the wire model (props/c05.Wire) reads frames with ref/llcp_codec.py",
        "participants: 2 link loops + 2-5 application threads; connection "
        "set-up runs under the default schedule"]
    cov = dict(bfs_cov)
    cov['sched_scenarios'] = len(sched_cfgs)
    cov['sched_executions'] = run.counters.get('executions', 0)
    cov['sched_deviation_bound_completed'] = bound
    cov['sched_scenarios_with_bound_3'] = len(
        [c for c in sched_cfgs if c.get('bound') == 3])
    cov['sched_scenarios_with_bound_1'] = len(
        [c for c in sched_cfgs if c.get('bound') == 1])
    cov['sched_scenarios_capped'] = capped
    cov['states'] = bfs_cov.get('states', 0) + run.counters.get(
        'choice_points', 0)
    cov['transitions'] = bfs_cov.get('transitions', 0) + run.counters.get(
        'choice_points', 0)
    cov['traces_validated_against_impl'] = bfs_cov.get(
        'transitions', 0) + run.counters.get('executions', 0)
    return run.finish(coverage=cov, exhaustive=capped == 0 and bfs_cov.get(
        'frontier_exhausted', True))


def replay(doc):
    d = doc['detail']
    if d.get('engine') == 'bfs':
        from props import c05_bfs
        return c05_bfs.replay(doc)
    cfg = d['cfg']
    cfg['rw'], cfg['n'] = tuple(cfg['rw']), tuple(cfg['n'])
    res = []
    for _ in range(2):
        s, out, wire = execute(cfg, sched.Chooser(d['choices']), True)
        res.append((sorted(set(b[0] for b in judge(cfg, s, out, wire))),
                    s.trace))
    if res[0] != res[1]:
        print("replay: NOT deterministic")
        return 2
    print("replay:", res[0][0])
    return 1 if doc['signature'] in res[0][0] else 0
