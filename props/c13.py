"""C13 - Drivers report RF and host-link failures only as documented errors.

Harness: a real ContactlessFrontend whose device is a real driver (pn531,
pn532 over the real TTY class, pn533, rcs956, rcs380, acr122, arygon A/B)
constructed by its real init() over sim/chipsets.py, or the real udp driver
over sim/air.py.  A target of each kind is established through the driver's
real sense_*/listen_*; then clf.exchange() runs with exactly one deviation
(thorough: up to two over two consecutive exchanges, reduced alphabet) at
every host command it issues (mc.explore over the Chooser env points).

Oracle (DESIGN C13, no stricter than the statement):
  * exchange() returns bytes-like data, or raises a nfc.clf.CommunicationError
    subclass or IOError; None only when operating as target (documented);
    anything else, or a read that would block forever, is a violation;
  * returned data must be something the remote side really sent;
  * for the canonical codes the mapping is checked: chip timeout code /
    RECEIVE_TIMEOUT / host read timeout of the receiving command ->
    TimeoutError; release / RF-off codes in listen mode, RF_OFF, RFOFF ->
    BrokenLinkError; other RF status -> TransmissionError; host faults ->
    IOError (TimeoutError allowed for ETIMEDOUT).
"""
from mc.evidence import Run
from mc.evidence import sig_exc as _sig_exc
from mc import par, explore
from mc.sched import Chooser
from sim import chipsets as cs
from sim import air

PROP = 'C13'


def sig_exc(exc):
    s = _sig_exc(exc)
    mod = type(exc).__module__
    if mod not in ('builtins', 'exceptions') and not mod.startswith('nfc'):
        s = mod.lstrip('_') + '.' + s          # struct.error, binascii.Error
    elif mod.startswith('nfc.clf.') and mod != 'nfc.clf':
        # rcs380.StatusError, pn53x.Chipset.Error: driver-internal types
        s = '%s.%s@%s' % (mod[8:], type(exc).__qualname__, s.split('@', 1)[1])
    return s


hx = bytes.fromhex

# what the local side sends in exchange(), per target kind
EXCH = {
    'T1': hx('0108'), 'T1-READ8': hx('0208') + bytes(8) + hx('B2565400'),
    'T2': hx('3004'), 'T4A': hx('0200A40400'), 'T4B': hx('0200A40400'),
    'T3': hx('1006') + bytes(range(1, 9)) + hx('010B00018000'),
    'DEPA': hx('06D406000000'), 'DEP106': hx('F006D406000000'),
    'tt2': bytes(range(16)), 'tt4': hx('029000'),
    'tt3': hx('1D07') + hx('02FE010203040506') + hx('0000 01') + bytes(16),
    'dep106': hx('F006D507000102'), 'dep212': hx('06D507000102'),
    'dep424': hx('06D507000102'),
}


# ----------------------------------------------------------------------------
# configurations
# ----------------------------------------------------------------------------
def configs(tier):
    out = []
    for drv in cs.DRIVERS:
        kinds = list(cs.SENSE_KINDS[drv])
        if drv in ('pn532', 'pn533', 'arygonB'):
            kinds.append('T1-READ8')
        for k in kinds:
            tmo = (0.1,) if tier == 'quick' else (0.1, 1.0)
            for t in tmo:
                out.append(dict(driver=drv, mode='sense', kind=k, timeout=t,
                                send=True))
        for k in cs.LISTEN_KINDS[drv]:
            for send in (True, False):
                tmo = (0.1,) if tier == 'quick' else (0.1, 1.0)
                for t in tmo:
                    out.append(dict(driver=drv, mode='listen', kind=k,
                                    timeout=t, send=send))
    for k in ('T1', 'T2', 'T4B', 'T3'):
        out.append(dict(driver='udp', mode='sense', kind=k, timeout=0.1,
                        send=True))
    for k in ('tt2', 'tt4b', 'tt3', 'dep106', 'dep106-direct'):
        for send in (True, False):
            out.append(dict(driver='udp', mode='listen', kind=k, timeout=0.1,
                            send=send))
    return out


def cfg_name(cfg):
    return '%s/%s/%s/t=%g%s' % (cfg['driver'], cfg['mode'], cfg['kind'],
                                cfg['timeout'], '' if cfg['send'] else '/recv')


# ----------------------------------------------------------------------------
# one execution
# ----------------------------------------------------------------------------
class HarnessBroken(Exception):
    pass


def setup_chip(cfg, chooser, alphabet):
    drv, kind = cfg['driver'], cfg['kind']
    if cfg['mode'] == 'sense':
        tkind = 'T1' if kind == 'T1-READ8' else kind
        resp = None
        if kind == 'T1-READ8':
            resp = hx('08') + bytes(range(0x20, 0x28))
        tag = cs.Tag(tkind, response=resp)
        sim = cs.Sim(drv, chooser=chooser, tag=tag, alphabet=alphabet)
        clf = sim.clf()
        target = clf.sense(cs.sense_target(tkind))
        legit = set()
        for r in (resp or tag.default_response(),):
            legit.add(bytes(r))
    else:
        ini = cs.Initiator(kind)
        sim = cs.Sim(drv, chooser=chooser, initiator=ini, alphabet=alphabet)
        clf = sim.clf()
        target = clf.listen(cs.listen_target(kind, ini), 1.0)
        legit = set()
        for f in ini.frames:
            legit.add(f)
            legit.add(f[1:])
    if target is None:
        raise HarnessBroken('no target for %s' % cfg_name(cfg))
    if sim.chip.bad_frames:
        raise HarnessBroken('ill-formed command frame during set-up: %r'
                            % (sim.chip.bad_frames[:1],))
    return sim, clf, legit


def run_case(cfg, chooser, alphabet=cs.FULL, exchanges=1):
    """Returns dict(outcomes=[...], devs=[[...] per exchange], cmds=[...],
    legit=set)."""
    if cfg['driver'] == 'udp':
        return run_udp(cfg, chooser, exchanges)
    sim, clf, legit = setup_chip(cfg, chooser, alphabet)
    sim.arm()
    data = EXCH[cfg['kind']] if cfg['send'] else None
    outcomes, bounds = [], []
    for x in range(exchanges):
        start = len(sim.chip.armed_cmds)
        outcomes.append(call_exchange(clf, data, cfg['timeout']))
        bounds.append((start, len(sim.chip.armed_cmds)))
    devs = [[(i, n, d) for (i, n, d) in sim.chip.devlog if a <= i < b]
            for a, b in bounds]
    cmds = [sim.chip.armed_cmds[a:b] for a, b in bounds]
    return dict(outcomes=outcomes, devs=devs, cmds=cmds, legit=legit,
                bad=list(sim.chip.bad_frames))


def call_exchange(clf, data, timeout):
    try:
        r = clf.exchange(bytearray(data) if data is not None else None,
                         timeout)
    except cs.WouldBlockForever:
        return ('hang', None)
    except Exception as e:
        return ('exc', e)
    if r is None:
        return ('none', None)
    try:
        return ('data', bytes(r))
    except TypeError:
        return ('exc', TypeError('exchange returned %r' % (r,)))


# ----------------------------------------------------------------------------
# the udp driver on the virtual air
# ----------------------------------------------------------------------------
UDP_DEVS = [('nopayload',), ('empty',), ('nonhex',), ('oddhex',),
            ('nonascii-brty',), ('rfoff',), ('wrongbrty',), ('noanswer',),
            ('threetokens',), ('trailing-space',), ('lowercase-brty',),
            ('nonascii-payload',), ('whitespace-only',)]


class HookDict(dict):
    def __init__(self, hook):
        dict.__init__(self)
        self.hook = hook

    def __setitem__(self, k, v):
        dict.__setitem__(self, k, v)
        self.hook(k, v)


class UdpPeer(object):
    """The remote side of nfc.clf.udp: answers every datagram of the local
    device by content; once armed, every answer is an env choice point."""
    PORT = 54321

    def __init__(self, cfg, chooser):
        self.cfg = cfg
        self.chooser = chooser
        self.armed = False
        self.devlog = []
        self.armed_cmds = []
        self.net = air.new_net(self.fate)
        self.net.bound = HookDict(self.on_bind)
        self.brty = {'T3': '212F', 'tt3': '212F', 'T4B': '106B',
                     'tt4b': '106B'}.get(cfg['kind'], '106A')
        self.idm = hx('02FE010203040506')
        self.step = 0
        k = cfg['kind']
        self.script = {
            'tt2': [hx('26'), hx('9320'), hx('9370') + hx('0801020308'),
                    hx('3000'), hx('3004'), hx('3008')],
            'tt4b': [hx('050000'), hx('0200A4040007D276000085010100'),
                     hx('0300B0000002'), hx('0200B0000002')],
            'tt3': [hx('0600FFFF0100'), hx('0A04') + self.idm,
                    hx('1006') + self.idm + hx('010B00018000'),
                    hx('1006') + self.idm + hx('010B00018001')],
            'dep106': [hx('26'), hx('9320'), hx('9370') + hx('0801020308'),
                       hx('F013D4003031323334353637383900000002AABB'),
                       hx('F006D406000000'), hx('F006D406010000'),
                       hx('F006D406020000')],
            # ATR_REQ without preceding anticollision (a peer that is not
            # nfcpy's own udp driver)
            'dep106-direct': [hx('F013D4003031323334353637383900000002AABB'),
                              hx('F006D406000000'), hx('F006D406010000'),
                              hx('F006D406020000')],
        }.get(k, [])
        self.legit = set(self.script)
        self.answer = {'T1': hx('04') + bytes(range(1, 9)),
                       'T2': bytes(range(0x10, 0x20)), 'T4B': hx('029000'),
                       'T3': hx('1D07') + bytes(range(1, 9)) + bytes(19)}.get(k)
        if self.answer:
            self.legit.add(self.answer)

    def dgram(self, data, brty=None):
        return (brty or self.brty).encode() + b' ' + data.hex().encode()

    def deliver(self, sock, payload):
        sock.q.append((payload, ('127.0.0.1', 40000)))

    def on_bind(self, port, sock):
        if port == self.PORT and self.cfg['mode'] == 'listen':
            self.step = 1
            self.deliver(sock, self.dgram(self.script[0]))

    def fate(self, net, src, dst, data):
        sock = net.bound.get(src)
        if sock is None or data.startswith(b'RFOFF'):
            return None
        try:
            d = bytes.fromhex(data.split()[1].decode())
        except (ValueError, IndexError):
            d = b''
        self.emit(sock, self.respond(d))
        return None

    def emit(self, sock, rsp):
        if rsp is None:
            return None
        if self.armed:
            idx = len(self.armed_cmds)
            self.armed_cmds.append('datagram')
            c = self.chooser.env(1 + len(UDP_DEVS), 'udp:datagram') \
                if self.chooser is not None else 0
            if c:
                dev = UDP_DEVS[c - 1]
                self.devlog.append((idx, 'datagram', dev))
                for p in self.deviate(dev, rsp):
                    self.deliver(sock, p)
                return None
        self.deliver(sock, self.dgram(rsp))
        return None

    def respond(self, d):
        k = self.cfg['kind']
        if self.cfg['mode'] == 'listen':
            if self.step >= len(self.script):
                self.step = len(self.script) - 1
            r = self.script[self.step]
            self.step += 1
            return r
        if d in (hx('26'), hx('52')):
            return hx('000C') if k == 'T1' else hx('4400')
        if d[:1] == b'\x78' and k == 'T1' and not self.armed:
            return hx('1148B2565400')
        if d == hx('9320'):
            return hx('04A1B2C3D4')
        if d[:2] == hx('9370'):
            return hx('00')
        if d[:1] == b'\x05' and len(d) == 3:
            return hx('50E8253EEC00000011008185')
        if d[:2] == hx('0600') and not self.armed:
            return hx('1401') + bytes(range(1, 9)) + hx('F1F2F3F4F5F6F7F812FC')
        return self.answer

    def deviate(self, dev, rsp):
        b = self.brty.encode()
        h = rsp.hex().encode()
        k = dev[0]
        if k == 'nopayload':
            return [b]
        if k == 'empty':
            return [b'']
        if k == 'nonhex':
            return [b + b' zz' + h]
        if k == 'oddhex':
            return [b + b' ' + h + b'1']
        if k == 'nonascii-brty':
            return [b'\xff\xfe\xfd ' + h]
        if k == 'nonascii-payload':
            return [b + b' \xff\xfe']
        if k == 'rfoff':
            return [b'RFOFF']
        if k == 'wrongbrty':
            return [b'848X ' + h]
        if k == 'noanswer':
            return []
        if k == 'threetokens':
            return [b + b' ' + h + b' ' + h]
        if k == 'trailing-space':
            return [b + b' ']
        if k == 'lowercase-brty':
            return [b.lower() + b' ' + h]
        if k == 'whitespace-only':
            return [b'  \t ']
        raise AssertionError(dev)


def run_udp(cfg, chooser, exchanges=1):
    import nfc.clf
    import nfc.clf.udp as udp
    peer = UdpPeer(cfg, chooser)
    dev = udp.init('localhost', UdpPeer.PORT)
    clf = nfc.clf.ContactlessFrontend()
    clf.device = dev
    k = cfg['kind']
    if cfg['mode'] == 'sense':
        brty = peer.brty
        target = clf.sense(nfc.clf.RemoteTarget(brty))
        data = {'T1': hx('0108'), 'T2': hx('3004'), 'T4B': hx('0200A40400'),
                'T3': hx('1006') + bytes(range(1, 9)) + hx('010B00018000')}[k]
    else:
        if k == 'tt2':
            t = nfc.clf.LocalTarget('106A')
            t.sens_res, t.sdd_res, t.sel_res = (
                bytearray(hx('4400')), bytearray(hx('08010203')),
                bytearray(hx('00')))
        elif k == 'tt4b':
            t = nfc.clf.LocalTarget('106B')
            t.sensb_res = bytearray(hx('50E8253EEC00000011008185'))
        elif k == 'tt3':
            t = nfc.clf.LocalTarget('212F')
            t.sensf_res = bytearray(b'\x01' + peer.idm + bytes(8) + hx('12FC'))
        else:
            t = cs.listen_target('dep106', None)
        target = clf.listen(t, 1.0)
        data = hx('01020304')
    if target is None:
        raise HarnessBroken('no target for %s' % cfg_name(cfg))
    peer.armed = True
    outcomes, bounds = [], []
    for x in range(exchanges):
        start = len(peer.armed_cmds)
        if not cfg['send']:        # the initiator sends its next command
            peer.emit(dev.socket, peer.respond(b''))
        outcomes.append(call_exchange(clf, data if cfg['send'] else None,
                                      cfg['timeout']))
        bounds.append((start, len(peer.armed_cmds)))
    devs = [[(i, n, d) for (i, n, d) in peer.devlog if a <= i < b]
            for a, b in bounds]
    cmds = [peer.armed_cmds[a:b] for a, b in bounds]
    return dict(outcomes=outcomes, devs=devs, cmds=cmds, legit=peer.legit,
                bad=[])


# ----------------------------------------------------------------------------
# oracle
# ----------------------------------------------------------------------------
def outcome_class(o):
    import nfc.clf
    kind, v = o
    if kind != 'exc':
        return kind
    for cls in (nfc.clf.TimeoutError, nfc.clf.BrokenLinkError,
                nfc.clf.TransmissionError, nfc.clf.ProtocolError):
        if isinstance(v, cls):
            return cls.__name__
    if isinstance(v, nfc.clf.CommunicationError):
        return 'CommunicationError'
    if isinstance(v, nfc.clf.Error):
        return 'other'
    if isinstance(v, IOError):
        return 'IOError'
    return 'other'


DOCUMENTED = ('data', 'TimeoutError', 'BrokenLinkError', 'TransmissionError',
              'ProtocolError', 'CommunicationError', 'IOError')
T, B, X, IO, D = ('TimeoutError', 'BrokenLinkError', 'TransmissionError',
                  'IOError', 'data')
PN_RECV = {'sense': ('InCommunicateThru', 'InDataExchange'),
           'listen': ('TgGetInitiatorCommand',)}
PN_RF = {'sense': ('InCommunicateThru', 'InDataExchange'),
         'listen': ('TgGetInitiatorCommand', 'TgResponseToInitiator')}
FIELD_CODES = (0x0A, 0x29, 0x31)


def strict_allowed(cfg, cmd, dev):
    """The set of outcome classes the statement's mapping allows for this
    single deviation, or None where it says nothing specific."""
    drv, mode = cfg['driver'], cfg['mode']
    k = dev[0]
    if drv == 'udp':
        if k == 'rfoff':
            return {B}
        if k == 'noanswer':
            return {T}
        if k in ('wrongbrty', 'lowercase-brty'):
            # a datagram that is not a frame for us: skipped (nothing
            # received in time) or taken as a garbled frame - both are
            # documented outcomes (the first version of this oracle demanded
            # the time-out: false alarm on a property-preserving change)
            return {T, X}
        return None
    if k in ('werr', 'rerr_ack', 'rerr_rsp'):
        if drv != 'rcs380' and k == 'rerr_rsp' and dev[1] == 'ETIMEDOUT' \
                and cmd in PN_RECV[mode]:
            return {T}
        if dev[1] == 'ETIMEDOUT':
            return {IO, T}
        return {IO}
    if drv == 'rcs380':
        if k == 'comm' and cmd in ('InCommRF', 'TgCommRF'):
            v = dev[1]
            if mode == 'listen' and v & 0x400:
                # the chipset says the field is gone: that is field loss,
                # whatever else it reports in the same status word
                return {B}
            allowed = set()
            if v & 0x80:
                allowed.add(T)
            if v & 0x400:
                allowed.add(B)
                if mode == 'sense':
                    allowed.add(X)
            if v & ~0x480:
                allowed.add(X)
            return allowed
        return None
    if k == 'status' and cmd in PN_RF[mode]:
        s = dev[1]
        c, h = s & 0x3F, s & 0xC0
        if mode == 'sense':
            if h == 0:
                if c == 1:
                    return {T}
                if c in FIELD_CODES:
                    return {X, B}
                return {X}
            if c == 0:
                return {D, X}
            if c == 1:
                # InDataExchange: bits 7:6 of the status byte are the
                # NAD/MI flags, the error code is in bits 5:0
                return {T} if cmd == 'InDataExchange' else {T, X}
            return {X, B} if c in FIELD_CODES else {X}
        if h == 0:
            if c in (0x29, 0x31):
                return {B}
            if c == 0x0A:
                return {B, X}
            if c == 1:
                return {T, X}
            return {X}
        return {X, B, T, D}
    if k == 'errframe' and cmd in PN_RF[mode]:
        return {X, IO}
    return None


def judge(cfg, res, x, baseline):
    """Verdict for exchange number x of one execution: None or
    (what, message)."""
    o = res['outcomes'][x]
    devs = res['devs'][x]
    cls = outcome_class(o)
    if cls == 'hang':
        return 'hang', 'read() without timeout would never return'
    if cls == 'other':
        return sig_exc(o[1]), 'undocumented exception %r' % (o[1],)
    if cls == 'none':
        if cfg['mode'] == 'sense':
            return 'returned-None', 'exchange() returned None as initiator'
        if not any(d for d in res['devs'][:x + 1]):
            return 'returned-None', 'None without any deviation'
    if cls == 'data':
        if o[1] not in res['legit']:
            return ('returned-corrupt-data',
                    'returned %s which the remote side never sent' % o[1].hex())
    prior_clean = not any(res['devs'][:x])
    if len(devs) == 1 and prior_clean:
        idx, cmd, dev = devs[0]
        allowed = strict_allowed(cfg, cmd, dev)
        if allowed is not None and cls not in allowed:
            return ('mapped:' + cls,
                    '%s reported as %s, the documented mapping allows %s' % (
                        dev_text(dev), cls, sorted(allowed)))
    if not devs and prior_clean:
        if o != baseline[x]:
            return 'nondeterministic', 'differs from the baseline run'
    return None


def dev_text(dev):
    if dev[0] in ('status', 'statusonly'):
        return 'status 0x%02X' % dev[1]
    if dev[0] == 'comm':
        return 'communication status 0x%08X' % dev[1]
    return ' '.join(str(x) for x in dev)


def signature(cfg, cmd, dev, what):
    kind = cfg['kind'] + ('' if cfg['send'] else '/recv')
    return '%s|%s|%s|%s|%s' % (cfg['driver'], kind, cmd,
                               dev[0] if dev else 'none', what)


# ----------------------------------------------------------------------------
# exploring one configuration
# ----------------------------------------------------------------------------
def explore_slice(run_one, bound, visit, r, R):
    """mc.explore.explore restricted to the r-th of R slices of the first
    level: the executions whose first deviation is the k-th alternative (in
    enumeration order) with k % R == r, and everything below them; slice 0
    also visits the deviation-free execution.  The union over r is exactly
    what explore() visits."""
    st = explore.Stats()
    ch = Chooser(())
    res = run_one(ch)
    if r == 0:
        st.executions += 1
        st.choice_points += len(ch.log)
        st.by_cost[0] = 1
        visit(ch, res)
    roots, k = [], 0
    for i, (n, costs, c, kind, label) in enumerate(ch.log):
        for alt in range(1, n):
            if costs[alt] <= bound:
                if k % R == r:
                    roots.append(((0,) * i + (alt,), costs[alt]))
                k += 1
    stack = list(reversed(roots))
    while stack:
        prefix, used = stack.pop()
        ch = Chooser(prefix)
        res = run_one(ch)
        if ch.i < len(ch.prefix):
            raise explore.HarnessError('replay divergence: %r' % (prefix,))
        st.executions += 1
        st.choice_points += len(ch.log)
        st.max_depth = max(st.max_depth, len(ch.log))
        st.by_cost[used] = st.by_cost.get(used, 0) + 1
        visit(ch, res)
        log = ch.log
        taken = [e[2] for e in log]
        cum = used
        children = []
        for i in range(len(prefix), len(log)):
            n, costs, c, kind, label = log[i]
            for alt in range(1, n):
                if cum + costs[alt] <= bound:
                    children.append((tuple(taken[:i]) + (alt,),
                                     cum + costs[alt]))
            cum += costs[c]
        stack.extend(reversed(children))
    return st


def explore_config(run, cfg, bound, alphabet, exchanges, max_execs=None,
                   slice_no=0, slices=1):
    base = run_case(cfg, Chooser(()), alphabet, exchanges)
    name = cfg_name(cfg)
    if base['bad']:
        raise HarnessBroken('ill-formed command frame in %s: %r' % (
            name, base['bad'][:1]))
    for x, o in enumerate(base['outcomes']):
        if o[0] != 'data':
            # the fault-free exchange already breaks the property
            v = judge(cfg, base, x, base['outcomes'])
            if v is None:
                raise HarnessBroken('baseline of %s is %r' % (name, o))
            if slice_no:
                return explore.Stats(), base
            run.fail(signature(cfg, 'none', None, v[0]), dict(
                config=cfg, alphabet=alphabet, exchanges=exchanges,
                choices=[], exchange_index=x, deviations=[],
                host_commands=base['cmds'], observed=repr(o[1]),
                verdict='fault-free exchange: ' + v[1]), key=(name, (), x))
            return explore.Stats(), base
    baseline = base['outcomes']

    def run_one(ch):
        return run_case(cfg, ch, alphabet, exchanges)

    def visit(ch, res):
        if res['bad']:
            raise HarnessBroken('ill-formed command frame written: %r' % (
                res['bad'][:1],))
        nd = sum(len(d) for d in res['devs'])
        for x in range(len(res['outcomes'])):
            v = judge(cfg, res, x, baseline)
            devs = res['devs'][x]
            key = (name, tuple(ch.choices), x)
            cls = outcome_class(res['outcomes'][x])
            run.outcome((cfg['driver'], cfg['mode'], cls))
            run.count('outcome_' + cls)
            if len(devs) == 1 and not any(res['devs'][:x]) and \
                    strict_allowed(cfg, devs[0][1], devs[0][2]) is not None:
                run.count('mapping_checked')
            if v is None:
                run.ok(key=key, nontrivial=nd > 0)
                continue
            what, msg = v
            if devs:
                idx, cmd, dev = devs[-1]
            else:
                prev = [d for dl in res['devs'][:x] for d in dl]
                idx, cmd, dev = prev[-1] if prev else (None, 'none', None)
                what = 'after:' + what if prev else what
            o = res['outcomes'][x]
            run.fail(signature(cfg, cmd, dev, what), dict(
                config=cfg, alphabet=alphabet, exchanges=exchanges,
                choices=ch.choices, exchange_index=x,
                deviations=[[list(map(_j, d)) for d in dl]
                            for dl in res['devs']],
                host_commands=res['cmds'],
                observed=repr(o[1]) if o[0] == 'exc' else
                (o[1].hex() if o[0] == 'data' else o[0]),
                verdict=msg), key=key, deviations=nd)

    if slices <= 1:
        st = explore.explore(run_one, bound, visit, max_execs=max_execs)
    else:
        st = explore_slice(run_one, bound, visit, slice_no, slices)
    run.count('executions', st.executions)
    run.count('choice_points', st.choice_points)
    if st.capped:
        run.count('capped_configs')
    return st, base


def _j(x):
    return list(x) if isinstance(x, tuple) else x


SLICES_B = 12


def work(args):
    chunk, tier, mode = args
    run = Run(PROP)
    info = []
    for cfg in chunk:
        if mode == 'A':
            st, base = explore_config(run, cfg, 1, cs.FULL, 1)
        else:
            st, base = explore_config(run, cfg, 2, cs.REDUCED, 2,
                                      slice_no=mode[1], slices=SLICES_B)
        info.append((cfg_name(cfg), mode, st.executions, st.max_depth,
                     base['cmds']))
    if chunk and chunk[0]['kind'] in ('T2', 'tt2'):
        c = chunk[0]
        run.sample(dict(config=cfg_name(c), mode=mode,
                        host_commands_of_exchange=info[0][4],
                        executions=info[0][2]))
    out = run.export()
    out['info'] = info
    return out


def main(tier='quick', seed=0, part=None):
    run = Run(PROP, tier, seed, level='fault_enumeration')
    cfgs = configs(tier)
    if part:
        cfgs = [c for c in cfgs if part in cfg_name(c)]
    jobs = [([c], tier, 'A') for c in cfgs]
    if tier == 'thorough':
        for c in configs('quick'):
            if part and part not in cfg_name(c):
                continue
            for r in range(SLICES_B):
                jobs.append(([c], tier, ('B', r)))
    per_cfg = {}
    for res in par.pmap(work, par.shuffled(jobs, seed)):
        for name, mode, execs, depth, cmds in res.pop('info'):
            k = name + ('' if mode == 'A' else ' [2 dev]')
            per_cfg[k] = per_cfg.get(k, 0) + execs
        run.merge(res)
    run.rule = (
        "for every configuration (driver x sense/listen target kind x "
        "exchange variant) the no-deviation execution, then every execution "
        "with exactly one deviation: each host command of clf.exchange() x "
        "each alternative of its alphabet (mc.explore, bound 1, choice points "
        "= host commands written while armed); thorough adds bound 2 over two "
        "consecutive exchanges with the reduced alphabet.  distinct = "
        "(configuration, choice list, exchange index); non-trivial = at "
        "least one deviation taken.")
    run.assumptions += [
        "chipset simulators (sim/chipsets.py) answer as the drivers' unit "
        "test transcripts and the PN53x/Port-100 documents describe; a "
        "status deviation drops the payload (as the chips do on error)",
        "host faults are injected as IOError(errno) raised by "
        "transport.write / transport.read (pn532 and arygon: around the real "
        "nfc.clf.transport.TTY.read/write over a fake serial port)",
        "strict mapping only for canonical codes: 0x01 / RECEIVE_TIMEOUT / "
        "host read timeout of the receiving command -> TimeoutError; 0x29, "
        "0x31 (listen) / RF_OFF_ERROR (listen) / RFOFF -> BrokenLinkError; "
        "other RF status -> TransmissionError; status values with bit 6/7 "
        "set, error frames and garbled frames only need a documented error",
        "None is accepted in listen mode after a deviation (documented), "
        "never in initiator mode",
        "time is virtual; a read() without timeout and nothing queued counts "
        "as a hang",
    ]
    run.extra['bounds'] = dict(
        tier=tier, configurations=len(cfgs),
        drivers=list(cs.DRIVERS) + ['udp'],
        deviation_bound=1 if tier == 'quick' else
        '1 (full alphabet) and 2 over two exchanges (reduced alphabet)',
        alphabet_full="status 1..255, nostatus, errframe, comm status: 32 "
        "single bits + 496 pairs + FFFFFFFF, werr/rerr_ack/rerr_rsp x "
        "{ETIMEDOUT,EIO,ENODEV}, noack, nack, wrongcode, wrongtfi, trunc at "
        "every length 1..len-1, garble sof/lcs/dcs/postamble/payload, "
        "acr122: sw 6300/9001, ccidtype, ccidlen; udp: %s" % (
            [d[0] for d in UDP_DEVS],),
        executions_per_configuration=dict(sorted(per_cfg.items())))
    return run.finish(exhaustive=True)


def replay(doc):
    d = doc['detail']
    cfg = d['config']
    cfg['timeout'] = float(cfg['timeout'])
    base = run_case(cfg, Chooser(()), d['alphabet'], d['exchanges'])
    res = run_case(cfg, Chooser(d['choices']), d['alphabet'], d['exchanges'])
    rc = 0
    want = doc.get('signature')
    for x in range(len(res['outcomes'])):
        v = judge(cfg, res, x, base['outcomes'])
        o = res['outcomes'][x]
        sig = None
        if v is not None:
            # the signature as the exploration builds it (a known finding of
            # the same case on the unchanged tree is not this violation)
            what = v[0]
            devs = res['devs'][x]
            if devs:
                idx, cmd, dev = devs[-1]
            else:
                prev = [dv for dl in res['devs'][:x] for dv in dl]
                idx, cmd, dev = prev[-1] if prev else (None, 'none', None)
                what = 'after:' + what if prev else what
            sig = signature(cfg, cmd, dev, what)
        print('exchange %d: deviations %r -> %s %r : %s' % (
            x, [dv[1:] for dv in res['devs'][x]], outcome_class(o),
            o[1] if o[0] != 'data' else o[1].hex(),
            'ok' if v is None else 'VIOLATION %s (%s) [%s]' % (v + (sig,))))
        if v is not None and (want is None or sig == want):
            rc = 1
    return rc
