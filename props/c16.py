"""C16 - tag commands retry transient errors and fail only as TagCommandError.

Harness: real tag objects from nfc.tag.activate() over the stateful tag
simulators.  For every (tag configuration, operation) a fault-free run fixes
the command sequence c_1..c_n the tag receives during the operation (commands
of the activation and of preparatory steps are not counted).  Then, for every
position p in 1..n, error kind in {timeout, transmission, protocol}, burst
length b and loss variant, the operation is run once more on a fresh tag with
the b consecutive exchanges p, p+1, .., p+b-1 (counted on the wire, i.e.
including retransmissions) failing with that kind:

    variant 'cmd-lost'   the tag never sees the command (state unchanged)
    variant 'rsp-lost'   the tag executes the command, the response is lost
    mixed variants       'rsp-then-cmd-lost' / 'cmd-then-rsp-lost': the first
                         faulted exchange of the burst differs from the rest

Operations: nfc.tag.activate, tag.ndef, ndef.octets = ..., is_present, format
with and without wipe, protect with and without password, authenticate, dump
and the low-level helpers of each tag class (see ops_for).  Bursts 1..4
(quick) / 1..6 (thorough); both tiers run every configuration and operation.

Oracle (the statement, nothing more):

 1. never a raw nfc.clf.CommunicationError or any exception that is not a
    nfc.tag.TagCommandError;
 2. a command whose response was delivered is not sent again (walk of the
    command log against the fault-free log; Type 4: no APDU is executed
    twice);
 3. b <= retry budget of the faulted command: same result and same final tag
    memory as the fault-free run;
 4. b > budget: the fault-free result and memory (the operation recovered on
    a higher level), or a TagCommandError whose errno matches the kind, or
    the documented failure value of the operation (tag.ndef None, is_present
    False, format/protect/authenticate False or None, dump: a list of strings,
    NTAG21x.signature 32 zero octets, nfc.tag.activate: None or a tag);
    is_present may only stay True if a command was answered after the burst.
A fault-free run that raises, or whose preparation does not work, is reported
as well.

Rules that keep the oracle from demanding more than the statement:

  * positions whose fault-free answer is "no response" (second SECTOR SELECT
    packet, NXP probing in activate) are exempt from the timeout kind;
  * 'rsp-lost' on a command that is not idempotent at the tag - recognised by
    the tag answering the retransmission differently from the lost answer
    (FeliCa Lite-S write with MAC: WCNT has moved on; Ultralight C AFh step;
    Type 2 Tag mute after NAK) - cannot be repaired by repeating the
    command: only rule 1, 2 and "TagCommandError (any errno) / documented
    failure / fault-free result" are demanded there;
  * retry budgets are what the code implements (see BUDGETS).
"""
import contextlib
import io
import os
import time

from mc.evidence import Run, sig_exc
from mc import par
from sim import tagsim, t4t, ntag21x, felica_lite
from sim.tagsim import TIMEOUT, TRANSMISSION, PROTOCOL
from props import tagcases as tc
from props import c16sims

PROP = 'C16'
VERIF_DIR = os.path.dirname(os.path.dirname(os.path.abspath(__file__)))
KINDS = (TIMEOUT, TRANSMISSION, PROTOCOL)
VARIANTS = ('cmd-lost', 'rsp-lost')
# the first faulted exchange differs from the rest of the burst
MIXED = ('rsp-then-cmd-lost', 'cmd-then-rsp-lost')
ERRNO = {TIMEOUT: 0, TRANSMISSION: -1, PROTOCOL: -2}
# (the quick tier is the former thorough tier - it takes half a minute)
BURSTS = {'quick': (1, 2, 3, 4), 'thorough': (1, 2, 3, 4, 5, 6)}
THIN = {'quick': 400, 'thorough': 1200}

BUDGETS = {
    'T1': 'tt1.Type1Tag.transceive: 3 attempts for every command and kind -> '
          'bursts <= 2 absorbed',
    'T2': 'tt2.Type2Tag.transceive(retries=2): 3 attempts -> bursts <= 2 '
          'absorbed; second SECTOR SELECT packet retries=0 -> budget 0; '
          'tt2_nxp.activate probing: no retry',
    'T3': 'tt3.Type3Tag.send_cmd_recv_rsp: 3 attempts -> bursts <= 2 absorbed',
    'T4': 'tt4.IsoDepInitiator.exchange: timeout/transmission errors are '
          'answered with R(NAK)/R(ACK) up to n = min(int(1/FWT), 5) times '
          '(FWI 8: 5, FWI 10: 3, FWI 11: 1, FWI 12: 0) -> bursts <= n '
          'absorbed; ProtocolError is never retried (budget 0); is_present '
          '(R(NAK) presence check) and RATS/ATTRIB are not retried (budget 0)',
    'activate': 'nfc.tag.activate: no retries, CommunicationError -> None',
}
T4_RETRIES = {8: 5, 10: 3, 11: 1, 12: 0}


class HarnessError(Exception):
    pass


# ---------------------------------------------------------------------------
# tag configurations
# ---------------------------------------------------------------------------
class Cfg(object):
    def __init__(self, name, family, tagclass, make, old, new, clf_args=None,
                 fwi=None, flags=()):
        self.name = name
        self.family = family
        self.tagclass = tagclass
        self.make = make            # () -> sim holding message `old`
        self.old = bytes(old)
        self.new = bytes(new)
        self.clf_args = clf_args or {}
        self.fwi = fwi
        self.flags = frozenset(flags)
        # budget 5 (FWI 8) is beyond the common burst range: add 5 and 6
        self.extra_bursts = (5, 6) if fwi == 8 else ()


def _msg(n, salt):
    return tc.content('count', n, salt)


def _tlv_cfg(name, family, tagclass, case, old_len, new_len, flags=(),
             simcls=None, extend=None):
    old, new = _msg(old_len, 3), _msg(new_len, 9)
    assert max(old_len, new_len) <= case.ref_capacity(), name

    def make():
        if simcls is None:
            sim = case.new_sim()
        else:
            mem = bytearray(case.image0) + bytearray(extend or b'')
            sim = simcls(mem, oneway=case.simargs['oneway'])
        case.preload(sim, old)
        return sim
    return Cfg(name, family, tagclass, make, old, new, flags=flags)


def _ntag_cfg(product='213'):
    old, new = _msg(12, 3), _msg(20, 9)

    def make():
        return c16sims.ModelSim(ntag21x.Ntag21x(product, ndef=old), 'ntag')
    return Cfg('T2-ntag' + product, 'T2', 'NTAG' + product, make, old, new,
               flags=('pwd', 'signature'))


def _lite_cfg(lite_s):
    old, new = _msg(40, 3), _msg(50, 9)

    def make():
        m = felica_lite.FelicaLiteTag(lite_s=lite_s, card_key=bytes(16))
        m.set_ndef(old)
        m.mem[13] = bytearray((0xD0 + i) & 0xFF for i in range(16))
        m.mem[felica_lite.CKV][0:2] = b'\x02\x01'
        return c16sims.ModelSim(m, 'felica')
    return Cfg('T3-lite-s' if lite_s else 'T3-lite', 'T3',
               'FelicaLiteS' if lite_s else 'FelicaLite', make, old, new,
               flags=('pwd', 'lite') + (('lite-s',) if lite_s else ()))


def _t3_cfg(name, tagclass, standard, nbr=4, nbw=2, nmaxb=4, old_len=40,
            new_len=50):
    case = tc.T3Case(nbr, nbw, nmaxb, spare=1)
    old, new = _msg(old_len, 3), _msg(new_len, 9)

    def make():
        if standard:
            cls = c16sims.FelicaStandard2Sim if standard == 2 \
                else c16sims.FelicaStandardSim
            sim = cls(bytearray(case.image0), nbr=nbr, nbw=nbw)
        else:
            sim = case.new_sim()
        case.preload(sim, old)
        return sim
    return Cfg(name, 'T3', tagclass, make, old, new,
               flags=('standard',) if standard else ('t3-generic',))


def _t4_cfg(name, tech, fsci, fwi, max_recv, mle, mlc, old_len, new_len,
            mapping=0x20):
    case = tc.T4Case(mapping, mle, mlc, 400, fsci=fsci, tech=tech)
    old, new = _msg(old_len, 3), _msg(new_len, 9)

    def make():
        sim = t4t.Type4TagSim(case.cc, bytearray(case.mfs), tech=tech,
                              fsci=fsci, fwi=fwi)
        case.preload(sim, old)
        return sim
    return Cfg(name, 'T4', 'Type4%sTag' % tech, make, old, new,
               clf_args=dict(max_recv=max_recv), fwi=fwi)


def configs(tier):
    out = [
        _tlv_cfg('T1-static', 'T1', 'Type1Tag', tc.t1_case(120, 0x00), 20, 30),
        _tlv_cfg('T1-dynamic', 'T1', 'Type1Tag', tc.t1_case(256, 0x00), 120,
                 130, flags=('dynamic',)),
        _tlv_cfg('T1-topaz', 'T1', 'Topaz', tc.t1_case(120, 0x48), 20, 30),
        _tlv_cfg('T1-topaz512', 'T1', 'Topaz512', tc.t1_case(512, 0x4C), 120,
                 130, flags=('dynamic',)),
        _tlv_cfg('T2-generic', 'T2', 'Type2Tag', tc.t2_case(64, 'generic'),
                 12, 20),
        _tlv_cfg('T2-ulc', 'T2', 'MifareUltralightC', tc.t2_case(144, 'ulc'),
                 12, 20, flags=('pwd', 'ulc'), simcls=c16sims.UlcSim,
                 extend=b'BREAKMEIFYOUCAN!'),
        _tlv_cfg('T2-ntag203', 'T2', 'NTAG203', tc.t2_case(144, 'ntag203'),
                 12, 20),
        _ntag_cfg(),
        _tlv_cfg('T2-2sector', 'T2', 'Type2Tag',
                 tc.t2_case(1016, 'generic', fill=12), 6, 8,
                 flags=('2sector',)),
        _t3_cfg('T3-generic', 'Type3Tag', False),
        _lite_cfg(False),
        _lite_cfg(True),
        _t3_cfg('T3-standard', 'FelicaStandard', True),
        # the same card with a second system (8008h) that has no NDEF service
        _t3_cfg('T3-standard-2sys', 'FelicaStandard', 2),
        # Type 4A: FSC 256, FSD 128 (response chaining), 3 ISO-DEP retries
        _t4_cfg('T4A-fwi10', 'A', 8, 10, 128, 255, 100, 200, 120),
        # Type 4B: FSC 32 (command chaining), 1 ISO-DEP retry
        _t4_cfg('T4B-fwi11', 'B', 2, 11, 256, 59, 52, 70, 60),
        # Type 4A: no ISO-DEP retries at all (FWT > 1 s)
        _t4_cfg('T4A-fwi12', 'A', 8, 12, 256, 255, 255, 60, 40),
    ]
    if tier in ('quick', 'thorough'):
        out += [
            _tlv_cfg('T2-ul', 'T2', 'MifareUltralight', tc.t2_case(48, 'ul'),
                     12, 20),
            _ntag_cfg('210'),
            # 3-byte NDEF length fields, many blocks / pages
            _tlv_cfg('T1-topaz512-long', 'T1', 'Topaz512',
                     tc.t1_case(512, 0x4C), 300, 260, flags=('dynamic',)),
            _tlv_cfg('T2-ntag215-long', 'T2', 'NTAG215',
                     tc.t2_case(504, 'ntag215'), 300, 260),
            _t3_cfg('T3-generic-nbr1', 'Type3Tag', False, 1, 1, 13, 100, 120),
            _t3_cfg('T3-generic-nbr12', 'Type3Tag', False, 12, 8, 13, 100,
                    120),
            _ntag_cfg('216'),
            _t4_cfg('T4B-fwi8', 'B', 8, 8, 128, 255, 255, 200, 120),
            _t4_cfg('T4A-v30-fwi11', 'A', 4, 11, 256, 59, 13, 70, 60,
                    mapping=0x30),
        ]
    return out


# ---------------------------------------------------------------------------
# operations
# ---------------------------------------------------------------------------
class Op(object):
    """kind selects the documented failure values (docfail)."""

    def __init__(self, name, kind, run, pre=None, tiers=('quick', 'thorough')):
        self.name, self.kind, self.run, self.pre = name, kind, run, pre
        self.tiers = tiers


def _ndef_view(nd):
    if nd is None:
        return None
    return dict(octets=nd.octets, readable=nd.is_readable,
                writeable=nd.is_writeable, capacity=nd.capacity,
                length=nd.length)


def _pre_ndef(tag, cfg):
    nd = tag.ndef
    if nd is None or nd.octets != cfg.old:
        raise HarnessError('%s: pre-image not readable' % cfg.name)
    return nd


def _pre_auth(tag, cfg):
    if tag.authenticate(b'') is not True:
        raise HarnessError('%s: preparatory authenticate failed' % cfg.name)
    return None


def _pre_auth_ndef(tag, cfg):
    _pre_auth(tag, cfg)
    return _pre_ndef(tag, cfg)


def _write(tag, nd, cfg):
    nd.octets = cfg.new
    return 'written'


PASSWORDS = {'T2-ulc': b'0123456789abcdef', 'T2-ntag213': b'abcdXY',
             'T2-ntag210': b'abcdXY', 'T2-ntag216': b'abcdXY',
             'T3-lite': b'0123456789abcdef', 'T3-lite-s': b'0123456789abcdef'}


def ops_for(cfg, tier):
    import nfc.tag.tt3 as tt3
    fam, fl = cfg.family, cfg.flags
    t3gen = 't3-generic' in fl or 'standard' in fl
    fmt = dict(version=0x10) if t3gen else {}
    ops = [
        Op('activate', 'activate', None),
        Op('ndef-read', 'ndef-read', lambda t, x, c: _ndef_view(t.ndef)),
        Op('ndef-write', 'strict', _write, pre=_pre_ndef),
        Op('is-present', 'is-present', lambda t, x, c: t.is_present),
        Op('format', 'tristate', lambda t, x, c: t.format(**fmt)),
        Op('format-wipe', 'tristate',
           lambda t, x, c: t.format(wipe=0xA5, **fmt)),
        Op('protect', 'tristate', lambda t, x, c: t.protect()),
        Op('dump', 'dump', lambda t, x, c: t.dump()),
    ]
    if t3gen:
        # known outside C16: version=None -> struct.error in the fault-free run
        ops.append(Op('format-default-version', 'tristate',
                      lambda t, x, c: t.format()))
    pw = PASSWORDS.get(cfg.name)
    if 'pwd' in fl:
        ops += [
            Op('protect-password', 'tristate', lambda t, x, c: t.protect(pw)),
            Op('authenticate', 'tristate', lambda t, x, c: t.authenticate(b'')),
            Op('authenticate-wrong-password', 'tristate',
               lambda t, x, c: t.authenticate(pw), tiers=('thorough',)),
            Op('protect-password-read-protect', 'tristate',
               lambda t, x, c: t.protect(pw, read_protect=True),
               tiers=('thorough',)),
        ]
    else:
        ops += [
            Op('protect-password', 'tristate',
               lambda t, x, c: t.protect(b'0123456789abcdef')),
            Op('authenticate', 'tristate',
               lambda t, x, c: t.authenticate(b'0123456789abcdef')),
        ]
    ll = 'lowlevel'
    if fam == 'T1':
        ops += [
            Op('read_id', ll, lambda t, x, c: t.read_id()),
            Op('read_all', ll, lambda t, x, c: t.read_all()),
            Op('read_byte', ll, lambda t, x, c: t.read_byte(9)),
            Op('write_byte', ll, lambda t, x, c: t.write_byte(30, 0x5A)),
            Op('write_byte-no-erase', ll,
               lambda t, x, c: t.write_byte(31, 0x0F, erase=False)),
        ]
        if 'dynamic' in fl:
            d8 = bytearray(b'\x11\x22\x33\x44\x55\x66\x77\x88')
            ops += [
                Op('read_block', ll, lambda t, x, c: t.read_block(17)),
                Op('read_segment', ll, lambda t, x, c: t.read_segment(1)),
                Op('write_block', ll, lambda t, x, c: t.write_block(17, d8)),
                Op('write_block-no-erase', ll,
                   lambda t, x, c: t.write_block(18, d8, erase=False)),
            ]
    elif fam == 'T2':
        ops += [
            Op('read', ll, lambda t, x, c: t.read(4)),
            Op('write', ll,
               lambda t, x, c: t.write(6, bytearray(b'\x11\x22\x33\x44'))),
            Op('transceive', ll, lambda t, x, c: t.transceive(b'\x30\x02')),
            Op('read-beyond-memory', ll, lambda t, x, c: t.read(0xFB)),
        ]
        if '2sector' in fl:
            ops += [
                Op('sector_select', ll, lambda t, x, c: t.sector_select(1)),
                Op('sector_select+read', ll, lambda t, x, c: (
                    t.sector_select(1), t.read(0), t.sector_select(0),
                    t.read(4))),
            ]
        if 'signature' in fl:
            ops.append(Op('signature', 'signature',
                          lambda t, x, c: t.signature))
    elif fam == 'T3':
        d16 = bytearray(range(0x40, 0x50))
        if 'lite' in fl:
            ops += [
                Op('polling', ll, lambda t, x, c: t.polling(0x12FC)),
                Op('read_without_mac', ll,
                   lambda t, x, c: t.read_without_mac(0x82, 1)),
                Op('write_without_mac', ll,
                   lambda t, x, c: t.write_without_mac(d16, 2)),
                Op('read_with_mac', ll, lambda t, x, c: t.read_with_mac(1, 2),
                   pre=_pre_auth),
                Op('ndef-read-authenticated', 'ndef-read',
                   lambda t, x, c: _ndef_view(t.ndef), pre=_pre_auth),
            ]
            if 'lite-s' in fl:
                ops += [
                    Op('write_with_mac', ll,
                       lambda t, x, c: t.write_with_mac(d16, 2),
                       pre=_pre_auth),
                    Op('ndef-write-authenticated', 'strict', _write,
                       pre=_pre_auth_ndef),
                ]
        else:
            sc_r = tt3.ServiceCode(0, 0b001011)
            ops += [
                Op('polling', ll, lambda t, x, c: t.polling(0x12FC, 1)),
                Op('read_from_ndef_service', ll,
                   lambda t, x, c: t.read_from_ndef_service(0, 1)),
                Op('write_to_ndef_service', ll,
                   lambda t, x, c: t.write_to_ndef_service(d16 + d16, 2, 3)),
                Op('read_without_encryption', ll,
                   lambda t, x, c: t.read_without_encryption(
                       [sc_r], [tt3.BlockCode(1)])),
            ]
            if 'standard' in fl:
                ops += [
                    Op('request_response', ll,
                       lambda t, x, c: t.request_response()),
                    Op('request_system_code', ll,
                       lambda t, x, c: t.request_system_code()),
                    Op('search_service_code', ll,
                       lambda t, x, c: t.search_service_code(1)),
                    Op('request_service', ll,
                       lambda t, x, c: t.request_service([sc_r])),
                ]
    elif fam == 'T4':
        aid = bytearray.fromhex('D2760000850101')

        def pre_cc(t, c):
            t.send_apdu(0, 0xA4, 0x04, 0x00, aid, 256)
            t.send_apdu(0, 0xA4, 0x00, 0x0C, b'\xE1\x03')

        def pre_ndef_file(t, c):
            t.send_apdu(0, 0xA4, 0x04, 0x00, aid, 256)
            t.send_apdu(0, 0xA4, 0x00, 0x0C, b'\xE1\x04')
        ops += [
            Op('send_apdu-select', ll,
               lambda t, x, c: t.send_apdu(0, 0xA4, 0x04, 0x00, aid, 256)),
            Op('send_apdu-read-binary', ll,
               lambda t, x, c: t.send_apdu(0, 0xB0, 0, 0, mrl=15),
               pre=pre_cc),
            Op('send_apdu-update-binary', ll,
               lambda t, x, c: t.send_apdu(0, 0xD6, 0, 2, b'\xD0\x00\x00'),
               pre=pre_ndef_file),
            Op('transceive', ll, lambda t, x, c: t.transceive(
                bytearray.fromhex('00A4040007D276000085010100'))),
        ]
    return list(ops)       # o.tiers: historical, both tiers run every op


def docfail(kind, res):
    """Is `res` (canonical result) a documented failure value?"""
    if res[0] != 'ret':
        return False
    v = res[1]
    if kind == 'ndef-read':
        return v is None
    if kind == 'is-present':
        return v is False
    if kind == 'tristate':
        return v is False or v is None
    if kind == 'dump':
        return isinstance(v, list) and all(isinstance(s, str) for s in v)
    if kind == 'signature':
        return v == (32 * b'\0').hex()
    if kind == 'activate':
        return v is None or (isinstance(v, str) and v.startswith('tag:'))
    return False


# ---------------------------------------------------------------------------
# one execution
# ---------------------------------------------------------------------------
class Injector(object):
    """sim.hook: numbers the commands of the operation 1.. and lets the
    exchanges p..p+burst-1 fail.  Also records the genuine answers so that
    non-idempotent retransmissions can be recognised."""

    def __init__(self, fault=None):
        self.k = 0
        self.fault = fault          # (p, kind, burst, variant) or None
        self.faulted = set()
        self.names = []
        self.genuine = []           # genuine answer per command (rsp-lost too)
        self.nonidem = False
        self._first = None
        self._window = False
        self._now = None

    def __call__(self, sim, phase, ctx):
        f = self.fault
        if phase == 'before':
            self.k += 1
            self.names.append(ctx.name)
            self.genuine.append('not-executed')
            self._now = None
            if f is not None and f[0] <= self.k < f[0] + f[2]:
                first = self.k == f[0]
                self._now = {'cmd-lost': 'cmd', 'rsp-lost': 'rsp',
                             'rsp-then-cmd-lost': 'rsp' if first else 'cmd',
                             'cmd-then-rsp-lost': 'cmd' if first else 'rsp',
                             }[f[3]]
            if self._window and self._first[0] != ctx.cmd:
                self._window = False
            if self._now == 'cmd':
                self.faulted.add(self.k)
                return f[1]
            return None
        self.names[-1] = ctx.name
        self.genuine[-1] = ctx.rsp
        if self._window and ctx.rsp != self._first[1]:
            self.nonidem = True
        if self._now == 'rsp':
            if self._first is None or self._first[0] != ctx.cmd:
                self._first = (ctx.cmd, ctx.rsp)
                self._window = True
            self.faulted.add(self.k)
            return f[1]
        return None


class Outcome(object):
    __slots__ = ('result', 'image', 'log', 'names', 'faulted', 'nonidem',
                 'apdus', 'noise', 'tagclass', 'genuine', 'exc')


def canon(v):
    if isinstance(v, (bytes, bytearray)):
        return bytes(v).hex()
    if isinstance(v, (list, tuple)):
        return [canon(x) for x in v]
    if isinstance(v, dict):
        return {k: canon(x) for k, x in sorted(v.items())}
    if v is None or isinstance(v, (bool, int, str)):
        return v
    import nfc.tag
    if isinstance(v, nfc.tag.Tag):
        return 'tag:' + type(v).__name__
    return repr(v)


def call(fn):
    import nfc.tag
    try:
        return ('ret', canon(fn())), None
    except HarnessError:
        raise
    except nfc.tag.TagCommandError as e:
        return ('tce', type(e).__name__, e.errno), e
    except Exception as e:
        import nfc.clf
        tb = e.__traceback__
        while tb.tb_next is not None:
            tb = tb.tb_next
        if tb.tb_frame.f_code.co_filename.startswith(VERIF_DIR) and \
                not isinstance(e, nfc.clf.CommunicationError):
            raise                       # harness / simulator bug
        return ('exc', sig_exc(e)), e   # raw CommunicationError included


def execute(cfg, op, fault=None):
    import nfc.tag
    sim = cfg.make()
    out = Outcome()
    inj = Injector(fault)
    noise = io.StringIO()
    with contextlib.redirect_stdout(noise):
        if op.kind == 'activate':
            sim.power_cycle()
            clf = tagsim.FakeClf(sim, **cfg.clf_args)
            target = sim.target()
            mark, amark = len(sim.log), len(getattr(sim, 'apdus', ()))
            sim.hook = inj
            out.result, out.exc = call(lambda: nfc.tag.activate(clf, target))
            out.tagclass = None
        else:
            clf, tag = tagsim.activate(sim, **cfg.clf_args)
            if type(tag).__name__ != cfg.tagclass:
                raise HarnessError('%s: activate gave %r' % (cfg.name, tag))
            x = op.pre(tag, cfg) if op.pre else None
            mark, amark = len(sim.log), len(getattr(sim, 'apdus', ()))
            sim.hook = inj
            out.result, out.exc = call(lambda: op.run(tag, x, cfg))
            out.tagclass = type(tag).__name__
    sim.hook = None
    out.image = sim.image()
    out.log = [(name, bytes(cmd), rsp) for (_, name, cmd, rsp)
               in sim.log[mark:]]
    if len(out.log) != inj.k:
        raise HarnessError('log/hook mismatch %d %d' % (len(out.log), inj.k))
    out.names = inj.names
    out.faulted = inj.faulted
    out.nonidem = inj.nonidem
    out.genuine = inj.genuine
    out.apdus = [bytes(a) for a, _ in getattr(sim, 'apdus', ())[amark:]]
    out.noise = len(noise.getvalue())
    return out


# ---------------------------------------------------------------------------
# oracle
# ---------------------------------------------------------------------------
def budget(cfg, op, name, kind):
    if op.kind == 'activate':
        return 0
    if cfg.family == 'T2':
        return 0 if name == 'SECTOR_SELECT_2' else 2
    if cfg.family == 'T4':
        if kind == PROTOCOL or op.name == 'is-present':
            return 0
        return T4_RETRIES[cfg.fwi]
    return 2


def resent_answered(cfg, op, ff, run, kind):
    """Rule 2.  Walks the command log of the faulty run along the fault-free
    log F.  While F[j] is unanswered (faulted, or the tag stayed silent where
    it answered in the fault-free run) and fewer attempts than its budget
    allows have been made, the only legitimate command is F[j] again; the
    previous, answered command F[j-1] at that point is a retransmission of
    an answered command.  Anything else is a different path through the
    operation and ends the comparison.  Returns a description or None."""
    if cfg.family == 'T4':
        F, j = ff.apdus, 0
        for a in run.apdus:
            if j < len(F) and a == F[j]:
                j += 1
            elif j > 0 and a == F[j - 1]:
                return 'apdu %s executed twice' % a.hex()
            else:
                break
        return None
    F, j, attempts = ff.log, 0, 0
    for i, (name, cmd, rsp) in enumerate(run.log):
        faulted = (i + 1) in run.faulted
        if j < len(F) and cmd == F[j][1]:
            if not faulted and (rsp is not None or F[j][2] is None):
                j, attempts = j + 1, 0
            else:
                attempts += 1
        elif (0 < j < len(F) and cmd == F[j - 1][1] and 0 < attempts
              < budget(cfg, op, F[j][0], kind) + 1):
            return '%s %s sent again after its response was delivered' % (
                name, cmd.hex())
        else:
            break
    return None


def describe(res):
    if res[0] == 'tce':
        return '%s(%d)' % (res[1], res[2])
    if res[0] == 'exc':
        return res[1]
    v = res[1]
    if isinstance(v, list):
        return 'returned list[%d]' % len(v)
    if isinstance(v, dict):
        return 'returned ndef'
    if isinstance(v, str) and len(v) > 12 and not v.startswith('tag:'):
        return 'returned data'
    return 'returned %r' % (v,)


def judge(cfg, op, ff, run, fault):
    """-> (verdict class, violation oracle name or None)"""
    p, kind, burst, variant = fault
    bud = budget(cfg, op, ff.names[p - 1], kind)
    R, R0 = run.result, ff.result
    if R[0] == 'exc':
        return 'exception', R[1]
    again = resent_answered(cfg, op, ff, run, kind)
    if again:
        return 'resent', 'answered-command-resent'
    same = R == R0 and run.image == ff.image
    doc = docfail(op.kind, R)
    if run.nonidem:
        if same or doc or R[0] == 'tce':
            return 'nonidempotent:' + (
                'same' if same else ('tce' if R[0] == 'tce' else 'docfail')), None
        return 'nonidempotent:other', 'not-absorbed:' + describe(R)
    if burst <= bud:
        if same:
            return 'absorbed', None
        if R == R0:
            return 'memory-differs', 'not-absorbed:same-result-other-memory'
        return 'not-absorbed', 'not-absorbed:' + describe(R)
    if same:
        if op.kind == 'is-present' and R[1] is True and not any(
                i + 1 not in run.faulted and rsp is not None
                and i + 1 >= p + burst for i, (_, _, rsp) in enumerate(run.log)):
            return 'present-without-answer', 'is-present-true-without-answer'
        return 'recovered-beyond-budget', None
    if R[0] == 'tce':
        if R[2] == ERRNO[kind]:
            return 'tce-matching', None
        return 'tce-other', 'wrong-errno:' + describe(R)
    if doc:
        return 'documented-failure', None
    if R == R0:
        return 'memory-differs', 'completed-with-other-memory:' + describe(R)
    return 'completed-differently', 'completed-despite-persistent-error:' + \
        describe(R)


def burst_class(burst, bud):
    return 'burst<=budget' if burst <= bud else 'burst>budget'


def positions(ff, tier):
    """Positions explored: all of 1..n; for n > THIN the first and last 12,
    every position where the command name changes (either side) and every
    ceil(n/16)-th position."""
    n = len(ff.log)
    if n <= THIN[tier]:
        return list(range(1, n + 1)), False
    s = set(range(1, 13)) | set(range(n - 11, n + 1))
    for i in range(1, n):
        if ff.names[i] != ff.names[i - 1]:
            s.update((i, i + 1))
    step = -(-n // 16)
    s.update(range(1, n + 1, step))
    return sorted(s), True


def check_one(cfg, op, ff, fault):
    """-> (verdict, signature or None, detail or None, run)"""
    run = execute(cfg, op, fault)
    p, kind, burst, variant = fault
    verdict, oracle = judge(cfg, op, ff, run, fault)
    if oracle is None:
        return verdict, None, None, run
    bud = budget(cfg, op, ff.names[p - 1], kind)
    tagclass = ff.tagclass or cfg.tagclass
    sig = '%s|%s|%s|%s|%s|%s' % (tagclass, op.name, ff.names[p - 1], kind,
                                 burst_class(burst, bud), oracle)
    detail = dict(
        config=cfg.name, op=op.name, p=p, kind=kind, burst=burst,
        variant=variant, budget=bud, n=len(ff.log),
        command=ff.log[p - 1][1], fault_free_result=summary(ff.result),
        observed_result=summary(run.result),
        memory_equal=run.image == ff.image,
        exception=repr(run.exc) if run.exc is not None else None,
        log=[(n_, c, r if not isinstance(r, bytes) else r[:24])
             for (n_, c, r) in run.log[max(0, p - 3):p + burst + 4]])
    return verdict, sig, detail, run


def summary(res):
    s = repr(res)
    return s if len(s) <= 300 else s[:300] + '...'


# ---------------------------------------------------------------------------
# driver
# ---------------------------------------------------------------------------
# ---------------------------------------------------------------------------
# histories on one tag object: a write that fails for good, another
# operation, the write again - all but the first fault free
# ---------------------------------------------------------------------------
HIST_MIDDLE = ('none', 'ndef-read', 'is-present', 'dump')


def hist_positions(n):
    if n <= 12:
        return list(range(1, n + 1))
    return sorted(set([1, 2, 3, n // 3, n // 2, (2 * n) // 3, n - 2, n - 1,
                       n]))


def history(cfg, ops, fault, middle):
    """-> (results [a, b, c], command counts) of: ndef-write disturbed from
    command p on (for good), `middle` fault free, ndef-write fault free, on
    ONE tag object."""
    sim = cfg.make()
    noise = io.StringIO()
    by_name = dict((o.name, o) for o in ops)
    wr = by_name['ndef-write']
    res, counts = [], []
    with contextlib.redirect_stdout(noise):
        clf, tag = tagsim.activate(sim, **cfg.clf_args)
        nd = wr.pre(tag, cfg)
        steps = [(wr, nd, fault)]
        if middle != 'none':
            steps.append((by_name[middle], None, None))
        steps.append((wr, nd, None))
        for op, x, flt in steps:
            inj = Injector(flt)
            sim.hook = inj
            try:
                r, exc = call(lambda: op.run(tag, x, cfg))
            finally:
                sim.hook = None
            res.append(r)
            counts.append(inj.k)
    return res, counts


def work_history(item):
    _, ci = item
    cfg = STATE['cfgs'][ci]
    ops = STATE['ops'][ci]
    run = Run(PROP)
    wr = [o for o in ops if o.name == 'ndef-write'][0]
    try:
        ff = execute(cfg, wr, None)
    except HarnessError:
        res = run.export()
        res['info'] = []
        return res
    n = len(ff.log)
    for p in hist_positions(n):
        for kind in KINDS:
            for variant in VARIANTS:
                for middle in HIST_MIDDLE:
                    if middle != 'none' and not any(
                            o.name == middle for o in ops):
                        continue
                    fault = (p, kind, 99, variant)
                    res, counts = history(cfg, ops, fault, middle)
                    key = (cfg.name, 'history', p, kind, variant, middle)
                    last = res[-1]
                    bad = None
                    if last[0] == 'exc':
                        bad = last[1]
                    elif last[0] == 'tce' and last[2] in (0, -1, -2):
                        # a communication failure is reported although every
                        # command of this operation (if any was sent) was
                        # answered
                        bad = 'communication-errno-%d-without-a-fault' % \
                            last[2]
                    run.outcome(('history', cfg.family, middle, res[0][0],
                                 last[0]))
                    run.count('histories:' + cfg.family)
                    if bad is None:
                        run.ok(key=key)
                    else:
                        run.fail('%s|history|write-fails,%s,write|%s' % (
                            cfg.tagclass, middle, bad),
                            dict(config=cfg.name, op='history', p=p,
                                 kind=kind, variant=variant, middle=middle,
                                 results=[describe(r) for r in res],
                                 commands=counts), key=key, deviations=1)
    run.sample(dict(config=cfg.name, op='history', n=n,
                    positions=hist_positions(n), middle=list(HIST_MIDDLE)))
    res = run.export()
    res['info'] = []
    return res


STATE = {}


def work(item):
    if item[0] == 'history':
        return work_history(item)
    ci, oi, kind, variant = item
    cfg = STATE['cfgs'][ci]
    op = STATE['ops'][ci][oi]
    tier = STATE['tier']
    run = Run(PROP)
    t0 = time.process_time()
    first = (kind == KINDS[0] and variant == VARIANTS[0])
    try:
        ff = execute(cfg, op, None)
    except HarnessError as e:
        # the fault-free preparation of the case does not work on this tree:
        # reported (once per configuration and operation), never hidden
        if first:
            run.fail('%s|%s|-|none|fault-free|preparation-failed' % (
                cfg.tagclass, op.name),
                dict(config=cfg.name, op=op.name, p=0, kind=None, burst=0,
                     variant=None, exception=repr(e)),
                key=(cfg.name, op.name, 'fault-free'))
        res = run.export()
        res['info'] = []
        return res
    n = len(ff.log)
    pos, thinned = positions(ff, tier)
    infos = []
    if ff.result[0] == 'exc':
        pos = []                    # nothing to compare faulty runs with
    if first:
        # the fault-free run itself
        info = dict(config=cfg.name, op=op.name, n=n, positions=len(pos),
                    thinned=thinned, result=describe(ff.result),
                    commands=sorted(set(ff.names)))
        if ff.result[0] == 'exc':
            run.fail('%s|%s|-|none|fault-free|%s' % (
                cfg.tagclass, op.name, ff.result[1]),
                dict(config=cfg.name, op=op.name, p=0, kind=None, burst=0,
                     variant=None, exception=repr(ff.exc)),
                key=(cfg.name, op.name, 'fault-free'))
        else:
            run.ok(key=(cfg.name, op.name, 'fault-free'), nontrivial=False)
        run.count('fault-free-runs')
        run.count('fault-free:' + ff.result[0])
        if ff.noise:
            run.count('stdout-noise-ops')
        if thinned:
            run.count('ops-with-thinned-positions')
        run.count('commands-in-fault-free-sequences', n)
        run.sample(info)
        infos.append(info)
    sampled = False
    for p in pos:
        silent = ff.log[p - 1][2] is None
        for burst in BURSTS[tier] + cfg.extra_bursts:
            if kind == TIMEOUT and silent:
                run.count('exempt:timeout-at-silent-position')
                continue
            fault = (p, kind, burst, variant)
            verdict, sig, detail, r = check_one(cfg, op, ff, fault)
            key = (cfg.name, op.name) + fault
            if sig is None:
                run.ok(key=key)
            else:
                run.fail(sig, detail, key=key, deviations=burst)
            run.count('verdict:' + verdict)
            run.count('runs:' + cfg.family)
            run.outcome((cfg.family, op.kind, verdict, r.result[0],
                         r.result[2] if r.result[0] == 'tce' else None))
            if not sampled and burst == 3 and p == (n + 1) // 2:
                sampled = True
                run.sample(dict(config=cfg.name, op=op.name, p=p, kind=kind,
                                burst=burst, variant=variant, verdict=verdict,
                                result=describe(r.result)))
    run.count('cpu_ms', int((time.process_time() - t0) * 1000))
    res = run.export()
    res['info'] = infos
    return res


def variants(tier):
    return VARIANTS + MIXED


def setup(tier, part):
    cfgs = configs(tier)
    if part:
        want = part.split(',')
        cfgs = [c for c in cfgs if c.name in want or c.family in want]
    STATE['tier'] = tier
    STATE['cfgs'] = cfgs
    STATE['ops'] = [ops_for(c, tier) for c in cfgs]
    return cfgs


def main(tier='quick', seed=0, part=None):
    run = Run(PROP, tier, seed, level='fault_enumeration')
    cfgs = setup(tier, part)
    items = []
    for ci, cfg in enumerate(cfgs):
        for oi, op in enumerate(STATE['ops'][ci]):
            for kind in KINDS:
                for variant in variants(tier):
                    items.append((ci, oi, kind, variant))
    for ci, cfg in enumerate(cfgs):
        # (Type 4: reader and card are out of step after a failed exchange -
        # C12's recorded finding - so a later error proves nothing there)
        if cfg.family != 'T4':
            items.append(('history', ci))
    infos = []
    for res in par.pmap(work, par.shuffled(items, seed)):
        infos += res.pop('info')
        run.merge(res)
    infos.sort(key=lambda d: (d['config'], d['op']))
    run.rule = (
        "one case = (tag configuration, operation, position p in the "
        "fault-free command sequence, error kind, burst length, loss "
        "variant); every case injects at least one fault and is counted as "
        "non-trivial; the fault-free run of every (configuration, operation) "
        "is counted as a trivial evaluation; histories (Type 1-3): ndef write "
        "disturbed for good from command p on (thinned positions) x kind x "
        "loss variant, then none / ndef read / is_present / dump, then the "
        "write again, fault free, on ONE tag object - the last step must not "
        "report a communication reason code or a foreign exception")
    run.assumptions += [
        "tag simulators sim/t1t,t2t,t3t,t4t, sim/ntag21x, sim/felica_lite and "
        "props/c16sims (UL-C 3DES step, FeliCa Standard commands) are the "
        "trusted base",
        "a fault hits whole exchanges: command lost (tag state unchanged) or "
        "response lost (tag executed the command); a burst is b consecutive "
        "exchanges on the wire, all of the same kind and variant",
        "retry budgets as implemented: " + '; '.join(
            '%s: %s' % kv for kv in sorted(BUDGETS.items())),
        "rsp-lost on a command the tag answers differently when it is "
        "repeated (not idempotent at the tag) only demands a graceful end "
        "(TagCommandError / documented failure / fault-free result)",
        "dump(): a list of strings (shortened or with ?? placeholders) is "
        "taken as the documented failure value, the docstrings describe "
        "dump as reading 'until an error response is received'",
        "Type 4: no S(WTX) in the card model and one operation per activation "
        "(the WTX and after-failure defects of IsoDepInitiator belong to C12)",
        "os.urandom inside nfc is the deterministic shim pattern (UL-C RndA, "
        "FeliCa Lite RC)",
    ]
    run.extra['bounds'] = dict(
        tier=tier, bursts=list(BURSTS[tier]),
        extra_bursts={c.name: list(c.extra_bursts) for c in cfgs
                      if c.extra_bursts}, kinds=list(KINDS),
        variants=list(variants(tier)), configurations=[c.name for c in cfgs],
        operations={c.name: [o.name for o in STATE['ops'][i]]
                    for i, c in enumerate(cfgs)},
        position_rule="all positions 1..n; for n > %d: first 12, last 12, "
        "both sides of every change of command name, every ceil(n/16)-th"
        % THIN[tier],
        t4_retries_by_fwi=T4_RETRIES, part=part)
    run.extra['caps'] = dict(
        ops_with_thinned_positions=[
            '%s/%s n=%d positions=%d' % (d['config'], d['op'], d['n'],
                                         d['positions'])
            for d in infos if d['thinned']])
    run.extra['sequences'] = ['%s/%s n=%d -> %s' % (
        d['config'], d['op'], d['n'], d['result']) for d in infos]
    run.extra['budgets'] = BUDGETS
    return run.finish(exhaustive=(part is None))


def replay(doc):
    d = doc['detail']
    cfgs = setup('thorough', None)      # superset of the quick tier
    cfg = [c for c in cfgs if c.name == d['config']][0]
    ci = cfgs.index(cfg)
    if d.get('op') == 'history':
        res, counts = history(cfg, STATE['ops'][ci],
                              (d['p'], d['kind'], 99, d['variant']),
                              d['middle'])
        print('replay:', [describe(r) for r in res], counts)
        last = res[-1]
        return 1 if last[0] == 'exc' or (
            last[0] == 'tce' and last[2] in (0, -1, -2)) else 0
    op = [o for o in STATE['ops'][ci] if o.name == d['op']][0]
    try:
        ff = execute(cfg, op, None)
    except HarnessError as e:
        print('VIOLATION fault-free preparation failed: %r' % (e,))
        return 1
    print('%s / %s: fault-free sequence of %d commands, result %s' % (
        cfg.name, op.name, len(ff.log), summary(ff.result)))
    if not d.get('p'):
        if ff.result[0] == 'exc':
            print('VIOLATION fault-free run raises %s' % ff.result[1])
            return 1
        print('no violation for this case')
        return 0
    fault = (d['p'], d['kind'], d['burst'], d['variant'])
    verdict, sig, detail, r = check_one(cfg, op, ff, fault)
    print('fault %r -> %s, result %s' % (fault, verdict, summary(r.result)))
    for i, (name, cmd, rsp) in enumerate(r.log):
        print('  %3d %-18s %s -> %s' % (
            i + 1, name, cmd.hex()[:48],
            rsp if not isinstance(rsp, bytes) else rsp.hex()[:48]))
    if sig:
        print('VIOLATION %s' % sig)
        return 1
    print('no violation for this case')
    return 0
