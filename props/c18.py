"""C18 - connect() and sense() honour their documented contract.

Real ContactlessFrontend on a scripted recording device.  Part 'sense': all
target lists of length 1..3 over a small alphabet of target kinds x
iterations, followed by exchange(), also after an earlier successful
sense/listen.  Part 'connect': option subsets x environments (no target, a
Type 2 tag that stays for r presence checks, an LLCP peer that disconnects
after j exchanges, a reader that sends k commands to the emulated card) x
callback return values (at most two non-default ones) x the call at which
terminate() turns true.  Every history is compared with a reference
automaton written from the docstrings (ref/connect_contract.py).
"""
import itertools

from mc.evidence import Run, sig_exc
from mc import par, sched
from ref import connect_contract as contract
from sim import peer as simpeer

PROP = 'C18'
RF_FAULTS = ('TransmissionError', 'TimeoutError')

T2_MEM = bytes.fromhex(
    "04a1b29f" "c3d4e5f6" "00480000" "e1100600" "0300fe00" + "00000000" * 11)
SENSF_RES = "0101fe010203040506ffffffffffffffff12fc"


class Dev(object):
    """Scripted device driver that records every call."""
    vendor_name, product_name, path = "Verif", "Script", "script:0"

    def __init__(self, env, log):
        self.env, self.log = env, log
        self.presence_left = env.get('presence', 0)
        self.reader_left = env.get('reader_cmds', 0)
        self.found = dict(env.get('found', {}))     # brty -> kind
        self.rf_on = False

    def _rec(self, name, *info):
        self.log.append(('dev', name) + info)
        if name in ('found', 'discovered'):
            return                       # notes of the harness, not calls
        self.calls = getattr(self, 'calls', 0) + 1
        fault = self.env.get('fault')
        if fault and fault[1] in RF_FAULTS:
            # communication errors come from the data exchange calls only:
            # the n-th of those fails
            if name not in ('send_cmd_recv_rsp', 'send_rsp_recv_cmd'):
                return
            self.rf_calls = getattr(self, 'rf_calls', 0) + 1
            if self.rf_calls != fault[0]:
                return
            self.fault_hit = name
            import nfc.clf
            raise getattr(nfc.clf, fault[1])("injected " + fault[1])
        if fault and self.calls == fault[0]:
            # part 'faults': the n-th driver call fails on the host link /
            # the user hits Ctrl-C while the driver is busy
            self.fault_hit = name
            if fault[1] == 'KeyboardInterrupt':
                raise KeyboardInterrupt()

            import errno
            raise IOError(getattr(errno, fault[1]), "host link: " + fault[1])

    def close(self):
        self._rec('close')

    def mute(self):
        self._rec('mute')
        self.rf_on = False

    def _sense(self, name, target):
        import nfc.clf
        self._rec(name, target.brty)
        self.rf_on = True
        kind = self.found.get(target.brty, 'absent')
        if kind == 'unsupported':
            raise nfc.clf.UnsupportedTargetError("no %s" % target.brty)
        if kind == 'error':
            raise nfc.clf.TransmissionError("crc")
        if kind == 'absent':
            return None
        self._rec('found', target.brty)
        if target.brty.endswith('A'):
            return nfc.clf.RemoteTarget(
                target.brty, sens_res=bytearray.fromhex("4400"),
                sel_res=bytearray.fromhex("00"),
                sdd_res=bytearray.fromhex("04a1b2c3d4e5f6"))
        if target.brty.endswith('F'):
            return nfc.clf.RemoteTarget(
                target.brty, sensf_res=bytearray.fromhex(SENSF_RES))
        return nfc.clf.RemoteTarget(target.brty)

    def sense_tta(self, target):
        return self._sense('sense_tta', target)

    def sense_ttb(self, target):
        return self._sense('sense_ttb', target)

    def sense_ttf(self, target):
        return self._sense('sense_ttf', target)

    def sense_dep(self, target):
        import nfc.clf
        self._rec('sense_dep', target.brty)
        if self.env.get('dep') == 'unsupported':
            raise nfc.clf.UnsupportedTargetError("no dep")
        return None

    def _listen(self, name, target, timeout):
        import nfc.clf
        self._rec(name, target.brty)
        how = self.env.get('listen')
        if how == 'unsupported':
            raise nfc.clf.UnsupportedTargetError("no " + name)
        if how == 'ioerror':
            raise IOError(5, "host link broken")
        sched.vsleep(min(timeout, 0.01))
        return None

    def listen_tta(self, target, timeout):
        return self._listen('listen_tta', target, timeout)

    def listen_ttb(self, target, timeout):
        return self._listen('listen_ttb', target, timeout)

    def listen_dep(self, target, timeout):
        return self._listen('listen_dep', target, timeout)

    def listen_ttf(self, target, timeout):
        import nfc.clf
        self._rec('listen_ttf', target.brty)
        if not self.env.get('reader'):
            sched.vsleep(min(timeout, 0.01))
            return None
        t = nfc.clf.LocalTarget("212F", sensf_res=target.sensf_res)
        t.sensf_req = bytearray.fromhex("00ffff0000")
        t.tt3_cmd = self._read_cmd(target)
        self._rec('discovered', target.brty)
        return t

    def _read_cmd(self, target):
        idm = bytes(target.sensf_res[1:9])
        cmd = bytearray([0x06]) + idm + bytearray.fromhex("010b00018000")
        return bytearray([len(cmd) + 1]) + cmd

    def send_cmd_recv_rsp(self, target, data, timeout):
        import nfc.clf
        self._rec('send_cmd_recv_rsp')
        if self.env.get('tag') and data and data[0] == 0x30 and len(data) == 2:
            if self.presence_left <= 0:
                raise nfc.clf.TimeoutError("tag left")
            if data[1] == 0 and self.env.get('count_presence'):
                pass
            off = 4 * (data[1] % 16)
            return bytearray((T2_MEM + T2_MEM)[off:off + 16])
        raise nfc.clf.TimeoutError("no answer")

    def tag_presence_tick(self):
        self.presence_left -= 1

    def send_rsp_recv_cmd(self, target, data, timeout):
        import nfc.clf
        self._rec('send_rsp_recv_cmd')
        if self.reader_left > 0:
            self.reader_left -= 1
            return self._read_cmd(target)
        raise nfc.clf.BrokenLinkError("reader went away")

    def get_max_send_data_size(self, target):
        return 290

    def get_max_recv_data_size(self, target):
        return 290

    def turn_on_led_and_buzzer(self):
        self._rec('led_on')

    def turn_off_led_and_buzzer(self):
        self._rec('led_off')


# -- part 'sense' -------------------------------------------------------------------
KINDS = {
    'A+': ('106A', 'found'), 'A-': ('106A', 'absent'),
    'B!': ('106B', 'unsupported'), 'F+': ('212F', 'found'),
    'F~': ('212F', 'error'), 'C?': ('106C', None),
    'Asel': ('106A', 'badsel'), 'D!': ('106A', 'dep-unsupported'),
    'D-': ('106A', 'dep-absent'), 'Datr': ('106A', 'badatr'),
}


def make_target(kind):
    import nfc.clf
    brty, what = KINDS[kind]
    t = nfc.clf.RemoteTarget(brty)
    if what == 'badsel':
        t.sel_req = bytearray(5)
    if what in ('dep-unsupported', 'dep-absent'):
        t.atr_req = bytearray(16)
    if what == 'badatr':
        t.atr_req = bytearray(15)
    return t


def sense_case(case):
    """case = (prelude, kinds, iterations)"""
    import nfc.clf
    import nfc.clf.device
    prelude, kinds, iterations = case
    log = []
    found = {}
    for k in kinds:
        brty, what = KINDS[k]
        if what in ('found', 'absent', 'unsupported', 'error'):
            # the first kind given for a bit rate decides what is in the field
            found.setdefault(brty, what)
    env = dict(found=found, dep='unsupported' if 'D!' in kinds else 'absent')
    dev = Dev(dict(found={'106A': 'found'}, tag=True), log)
    real = nfc.clf.device.connect
    nfc.clf.device.connect = lambda path: dev
    bad = []
    try:
        clf = nfc.clf.ContactlessFrontend('script')
        if prelude == 'sense':
            if clf.sense(nfc.clf.RemoteTarget('106A')) is None:
                raise sched.HarnessError("prelude sense failed")
        elif prelude == 'listen':
            dev.env = dict(reader=True)
            t = clf.listen(nfc.clf.LocalTarget(
                '212F', sensf_res=bytearray.fromhex(SENSF_RES)), 0.1)
            if t is None:
                raise sched.HarnessError("prelude listen failed")
        dev.env, dev.found = env, dict(found)
        del log[:]
        targets = [make_target(k) for k in kinds]
        invalid = any(KINDS[k][1] in ('badsel', 'badatr') for k in kinds)
        try:
            res = ('ret', clf.sense(*targets, iterations=iterations,
                                    interval=0.01))
        except nfc.clf.UnsupportedTargetError as e:
            res = ('unsupported', e)
        except ValueError as e:
            res = ('valueerror', e)
        except sched.HarnessError:
            raise
        except Exception as e:
            res = ('exc', e)
        sense_log = list(log)
        del log[:]
        try:
            xres = ('ret', clf.exchange(b'\x30\x00', 0.1))
        except sched.HarnessError:
            raise
        except Exception as e:
            xres = ('exc', e)
        bad = contract.check_sense(kinds, KINDS, iterations, res, sense_log,
                                   xres, list(log), clf.target, invalid)
    finally:
        nfc.clf.device.connect = real
    outcome = (res[0], res[1].brty if res[0] == 'ret' and res[1] else None,
               xres[0], xres[1] is None if xres[0] == 'ret' else None)
    return bad, outcome


# -- part 'listen': a listen() that finds nobody or fails, after a successful
# sense() or listen(); exchange() must not use the earlier target -------------
LISTEN_KINDS = {
    'A-none': ('106A', None), 'B-none': ('106B', None),
    'F-none': ('212F', None), 'dep-none': ('dep', None),
    'A-unsupported': ('106A', 'unsupported'),
    'B-unsupported': ('106B', 'unsupported'),
    'F-unsupported': ('212F', 'unsupported'),
    'dep-unsupported': ('dep', 'unsupported'),
    'A-ioerror': ('106A', 'ioerror'), 'F-ioerror': ('212F', 'ioerror'),
    'C-badbrty': ('106C', None), 'X-badbrty': ('999Z', None),
}


def listen_case(case):
    import nfc.clf
    import nfc.clf.device
    prelude, kind = case
    brty, how = LISTEN_KINDS[kind]
    log = []
    dev = Dev(dict(found={'106A': 'found'}, tag=True), log)
    real = nfc.clf.device.connect
    nfc.clf.device.connect = lambda path: dev
    bad = []
    try:
        clf = nfc.clf.ContactlessFrontend('script')
        if prelude == 'sense':
            if clf.sense(nfc.clf.RemoteTarget('106A')) is None:
                raise sched.HarnessError("prelude sense failed")
        else:
            dev.env = dict(reader=True)
            t = clf.listen(nfc.clf.LocalTarget(
                '212F', sensf_res=bytearray.fromhex(SENSF_RES)), 0.1)
            if t is None:
                raise sched.HarnessError("prelude listen failed")
        dev.env = dict(listen=how)
        del log[:]
        if brty == 'dep':
            target = nfc.clf.LocalTarget(
                '106A', sens_res=bytearray.fromhex("0101"),
                sdd_res=bytearray.fromhex("08010203"),
                sel_res=bytearray.fromhex("40"),
                sensf_res=bytearray.fromhex(SENSF_RES),
                atr_res=bytearray.fromhex(
                    "D501" + "01FE0102030405060708" + "0000000832"))
        elif brty.endswith('F'):
            target = nfc.clf.LocalTarget(
                brty, sensf_res=bytearray.fromhex(SENSF_RES))
        else:
            target = nfc.clf.LocalTarget(
                brty, sens_res=bytearray.fromhex("0101"),
                sdd_res=bytearray.fromhex("08010203"),
                sel_res=bytearray.fromhex("00"))
        try:
            res = ('ret', clf.listen(target, 0.05))
        except sched.HarnessError:
            raise
        except (nfc.clf.UnsupportedTargetError, ValueError, IOError) as e:
            res = (type(e).__name__, e)
        except Exception as e:
            res = ('exc', e)
        if res[0] == 'exc':
            bad.append(('listen-raises|%s' % type(res[1]).__name__,
                        dict(error=repr(res[1]))))
        elif res[0] == 'ret' and res[1] is not None:
            raise sched.HarnessError("listen found somebody: %r" % (res,))
        del log[:]
        try:
            xres = ('ret', clf.exchange(b'\x30\x00', 0.1))
        except sched.HarnessError:
            raise
        except Exception as e:
            xres = ('exc', e)
        used = [e for e in log if e[0] == 'dev']
        if clf.target is not None:
            bad.append(('stale-target-kept|after-listen:%s' % res[0],
                        dict(target=str(clf.target))))
        if xres[0] == 'exc':
            bad.append(('exchange-raises|%s' % type(xres[1]).__name__,
                        dict(error=repr(xres[1]))))
        elif xres[1] is not None or used:
            bad.append(('exchange-used-stale-target|after-listen:%s' % res[0],
                        dict(result=repr(xres[1]), calls=used)))
    finally:
        nfc.clf.device.connect = real
    return bad, ('listen', kind, res[0], xres[0])


def listen_cases(tier):
    return [(p, k) for p in ('sense', 'listen') for k in sorted(LISTEN_KINDS)]


def sense_cases(tier):
    kinds = sorted(KINDS)
    out = []
    for prelude in (None, 'sense', 'listen'):
        for n in (1, 2, 3):
            for combo in itertools.product(kinds, repeat=n):
                for it in (1, 2):
                    out.append((prelude, combo, it))
    return out


# -- part 'connect' -----------------------------------------------------------------
DEFAULTS = {'on-startup': 'ok', 'on-discover': True, 'on-connect': True,
            'on-release': True}
VALUES = {'on-startup': ['ok', None, 'wrong', 'empty'],
          'on-discover': [True, False, None, 1],
          'on-connect': [True, False, None, 0, 'x', 'obj'],
          'on-release': [True, False, None, 'x']}


def connect_case(case):
    import nfc.clf
    import nfc.clf.device
    import nfc.dep
    import nfc.tag
    import nfc.llcp.llc
    opts, envname, cbret, term_at = (case['opts'], case['env'], case['cb'],
                                     case['term'])
    log = []
    env = dict(found={})
    if envname == 'tag':
        env = dict(found={'106A': 'found'}, tag=True,
                   presence=case.get('presence', 2))
    if envname == 'reader':
        env = dict(found={}, reader=True, reader_cmds=case.get('cmds', 2))
    if case.get('fault'):
        env['fault'] = tuple(case['fault'])
    dev = Dev(env, log)
    p = simpeer.Peer()
    brk = simpeer.Break('disc', case.get('exchanges', 3))
    Ini, Tgt = simpeer.make_mac_classes()
    Ini.peer = Tgt.peer = p
    Ini.brk = Tgt.brk = brk
    if envname != 'peer':
        brk.happened = True                 # nobody there: activation fails
    calls = dict(term=0)
    term_true = [False]

    def terminate():
        calls['term'] += 1
        r = calls['term'] > term_at or (envname == 'peer' and brk.happened
                                        and case.get('stop_after_link'))
        if r:
            term_true[0] = True
        log.append(('terminate', bool(r)))
        return r

    def value(kind, name, arg):
        v = cbret.get((kind, name), DEFAULTS[name])
        if name == 'on-startup':
            if v == 'ok':
                return arg
            if v == 'wrong':
                return "not the right type"
            if v == 'empty':
                return [] if kind == 'rdwr' else None
            return None
        if v == 'obj':
            return object()
        return v

    def cb(kind, name):
        def f(arg):
            if name == 'on-connect' and kind == 'rdwr' and env.get('tag'):
                # the tag stays for `presence` presence checks
                orig = arg._is_present

                def counted():
                    dev.presence_left -= 1
                    return orig()
                arg._is_present = counted
            r = value(kind, name, arg)
            log.append(('cb', kind, name, type(arg).__name__, id(arg),
                        contract.truth(r), r if isinstance(
                            r, (bool, int, str, type(None))) else 'object'))
            objs[id(arg)] = arg
            rets[(kind, name, len(log))] = r
            return r
        return f
    objs, rets = {}, {}
    kwargs = {}
    for kind in opts:
        o = {n: cb(kind, n) for n in DEFAULTS}
        if kind == 'rdwr':
            o.update(targets=['106A'], iterations=1, interval=0.01)
        if kind == 'llcp':
            o.update(role=case.get('role', 'initiator'), lto=100, sec=False)
        if kind == 'card':
            def on_startup(target, inner=o['on-startup']):
                target.brty = '212F'
                target.sensf_res = bytearray.fromhex(SENSF_RES)
                return inner(target)
            o['on-startup'] = on_startup
            o['timeout'] = 0.05
        kwargs[kind] = o
    real_connect = nfc.clf.device.connect
    real_dep = nfc.dep.Initiator, nfc.dep.Target
    nfc.clf.device.connect = lambda path: dev
    nfc.dep.Initiator, nfc.dep.Target = Ini, Tgt
    s = sched.Sched(sched.Chooser(), max_steps=200000, timer_deviations=False)
    s.quiet = True
    out = {}

    def main():
        clf = nfc.clf.ContactlessFrontend('script')
        del log[:]
        try:
            out['ret'] = ('ret', clf.connect(terminate=terminate, **kwargs))
        except sched.Abort:
            raise
        except BaseException as e:
            out['ret'] = ('exc', e)
    try:
        s.spawn(main, 'main')
        s.run()
    finally:
        nfc.clf.device.connect = real_connect
        nfc.dep.Initiator, nfc.dep.Target = real_dep
    if 'ret' not in out:
        return [('connect|no-return|%s' % s.verdict,
                 dict(stuck=s.stuck()))], 'stuck'
    if case.get('fault') and case['fault'][1] in RF_FAULTS:
        # a communication error is an ordinary event of the environment (the
        # other side was disturbed once): the whole contract applies, and
        # connect() returns instead of raising
        if out['ret'][0] == 'exc':
            return [('rf-fault|%s|%s|raises|%s' % (
                case['fault'][1], getattr(dev, 'fault_hit', None),
                sig_exc(out['ret'][1])),
                dict(fault=case['fault'],
                     driver_call=getattr(dev, 'fault_hit', None),
                     error=repr(out['ret'][1])))], ('rf-fault', 'raises')
    elif case.get('fault'):
        # documented: connect() returns False when terminated by IOError or
        # KeyboardInterrupt (whatever phase the activation was in)
        hit = getattr(dev, 'fault_hit', None)
        if case.get('probe'):
            return [], ('probe', getattr(dev, 'calls', 0))
        if hit is None:
            return [], ('fault-not-reached',)
        r = out['ret']
        ok = r[0] == 'ret' and r[1] is False
        outcome = ('fault', hit, r[0], contract.ret_class(r[1])
                   if r[0] == 'ret' else type(r[1]).__name__)
        if ok:
            return [], outcome
        phase = 'after-on-connect' if any(
            e[0] == 'cb' and e[2] == 'on-connect' for e in log) else 'before'
        what = ('raises|%s' % sig_exc(r[1])) if r[0] == 'exc' else (
            'returned-%s' % contract.ret_class(r[1]))
        return [('fault|%s|%s|%s|%s' % (case['fault'][1], hit, phase, what),
                 dict(fault=case['fault'], driver_call=hit,
                      result=repr(r[1]), expected='False'))], outcome
    happened = dict(
        rdwr=len([e for e in log if e[:2] == ('dev', 'found')]),
        card=len([e for e in log if e[:2] == ('dev', 'discovered')]),
        llcp=getattr(p, 'activations', 0))
    bad = contract.check_connect(opts, log, out['ret'], objs, term_at,
                                 happened)
    r = out['ret']
    outcome = (r[0], contract.ret_class(r[1]) if r[0] == 'ret' else
               type(r[1]).__name__,
               tuple(e[2] for e in log if e[0] == 'cb'))
    return bad, outcome


def connect_cases(tier):
    thorough = True      # the whole grid runs in a few seconds
    out = []
    optsets = [('rdwr',), ('llcp',), ('card',), ('rdwr', 'llcp'),
               ('rdwr', 'card'), ('llcp', 'card'), ('rdwr', 'llcp', 'card')]
    envs = ['none', 'tag', 'peer', 'reader']
    terms = range(0, 8) if thorough else (0, 1, 2, 3, 5)
    for opts in optsets:
        slots = [(k, n) for k in opts for n in DEFAULTS]
        devs = [dict()]
        for slot in slots:
            for v in VALUES[slot[1]]:
                if v != DEFAULTS[slot[1]]:
                    devs.append({slot: v})
        if thorough or len(opts) == 1:
            for a, b in itertools.combinations(slots, 2):
                for va in VALUES[a[1]]:
                    for vb in VALUES[b[1]]:
                        if va != DEFAULTS[a[1]] and vb != DEFAULTS[b[1]]:
                            devs.append({a: va, b: vb})
        for env in envs:
            for cbret in devs:
                for t in terms:
                    base = dict(opts=opts, env=env, cb=cbret, term=t)
                    if env == 'peer' and 'llcp' in opts:
                        for role in ('initiator', 'target'):
                            out.append(dict(base, role=role,
                                            stop_after_link=t % 2 == 0))
                    else:
                        out.append(base)
    return out


# -- part 'defaults' ----------------------------------------------------------------
# "For any combination of rdwr, llcp and card options": an option dictionary
# that is empty (every documented default applies) must make connect() behave
# like the dictionary that spells one of those defaults out.
def defaults_run(kind, envname, term_at, form):
    import nfc.clf
    import nfc.clf.device
    import nfc.dep
    log = []
    env = dict(found={})
    if envname == 'tag':
        env = dict(found={'106A': 'found'}, tag=True, presence=2)
    if envname == 'reader':
        env = dict(found={}, reader=True, reader_cmds=2)
    dev = Dev(env, log)
    p = simpeer.Peer()
    brk = simpeer.Break('disc', 3)
    Ini, Tgt = simpeer.make_mac_classes()
    Ini.peer = Tgt.peer = p
    Ini.brk = Tgt.brk = brk
    if envname != 'peer':
        brk.happened = True
    calls = dict(term=0)

    def terminate():
        calls['term'] += 1
        return calls['term'] > term_at or (envname == 'peer'
                                           and brk.happened)
    if form == 'empty':
        opts = {}
    elif form == 'none-valued':
        # documented defaults spelled out as None where None is the default
        opts = {'role': None} if kind == 'llcp' else {}
    else:
        # one documented default spelled out
        name = {'rdwr': 'on-connect', 'llcp': 'on-connect',
                'card': 'on-release'}[kind]
        opts = {name: lambda arg: True}
    if kind == 'rdwr' and env.get('tag'):
        # the tag leaves after two presence checks (also with the default
        # on-connect): counted in the driver stand-in
        dev.count_presence_in_driver = True
    real_connect = nfc.clf.device.connect
    real_dep = nfc.dep.Initiator, nfc.dep.Target
    nfc.clf.device.connect = lambda path: dev
    nfc.dep.Initiator, nfc.dep.Target = Ini, Tgt
    s = sched.Sched(sched.Chooser(), max_steps=200000, timer_deviations=False)
    s.quiet = True
    out = {}

    def main():
        clf = nfc.clf.ContactlessFrontend('script')
        del log[:]
        try:
            out['ret'] = ('ret', clf.connect(terminate=terminate,
                                             **{kind: opts}))
        except sched.Abort:
            raise
        except BaseException as e:
            out['ret'] = ('exc', e)
    try:
        s.spawn(main, 'main')
        s.run()
    finally:
        nfc.clf.device.connect = real_connect
        nfc.dep.Initiator, nfc.dep.Target = real_dep
    if 'ret' not in out:
        return ('stuck', s.verdict), []
    r = out['ret']
    cls = (r[0], contract.ret_class(r[1]) if r[0] == 'ret'
           else type(r[1]).__name__)
    return cls, [e[1] for e in log if e[0] == 'dev'], calls['term']


def defaults_case(case):
    kind, envname, term_at = case
    a = defaults_run(kind, envname, term_at, 'empty')
    b = defaults_run(kind, envname, term_at, 'spelled')
    c = defaults_run(kind, envname, term_at, 'none-valued')
    if a == b == c:
        return [], ('defaults', kind, envname, a[0])
    if a == b:
        return [('defaults|%s={role: None}|differs-from-empty-dict' % kind,
                 dict(kind=kind, env=envname, terminate_at=term_at,
                      with_empty_dict=repr(a), with_role_none=repr(c)))
                ], ('defaults', kind, envname, 'differs')
    return [('defaults|%s={}|differs-from-spelled-out-default' % kind,
             dict(kind=kind, env=envname, terminate_at=term_at,
                  with_empty_dict=repr(a), with_default_spelled_out=repr(b)))
            ], ('defaults', kind, envname, 'differs')


def defaults_cases(tier):
    return [(k, e, t) for k in ('rdwr', 'llcp', 'card')
            for e in ('none', 'tag', 'peer', 'reader') for t in range(0, 6)]


# -- part 'race' --------------------------------------------------------------------
# "exchange() never uses a target from an earlier sense or listen" - also
# when another thread's sense()/listen() completes while exchange() waits for
# the frontend lock.  The two-thread harness and driver proxy of props/c15.py;
# every schedule with <= 2 preemptions.
RACE_OTHERS = ('sense1', 'sense2', 'listen', 'listen_a', 'listen_b', 'close')


def race_cfgs():
    out = []
    for x in RACE_OTHERS:
        out.append(dict(eps=['exchange', x], target='tag'))
        out.append(dict(eps=[x, 'exchange'], target='tag'))
    # sense() / connect() of one thread against close() of another: the
    # documented outcomes are a return value or IOError (no device)
    for x in ('sense1', 'sense2', 'connect_rdwr', 'connect_card', 'listen'):
        out.append(dict(eps=[x, 'close'], target='tag'))
        out.append(dict(eps=['close', x], target='none'))
    return out


def race_work(cfg):
    from props import c15
    from mc import explore
    run = Run(PROP)
    stats = explore.Stats()

    def visit(ch, res):
        s, rec = res
        key = ('race', repr(cfg), tuple(ch.choices))
        run.outcome(('race', tuple(sorted((i, r[0]) for i, r in
                                          rec['results'].items())),
                     bool(rec.get('stale'))))
        raised = [(i, r[1]) for i, r in sorted(rec['results'].items())
                  if r[0] == 'exc']
        if raised:
            i, e = raised[0]
            run.fail('race|%s|raises|%s|other-thread:%s' % (
                cfg['eps'][i], sig_exc(e), cfg['eps'][1 - i]),
                dict(kind='race', cfg=cfg, choices=ch.choices,
                     error=repr(e)), key, deviations=ch.cost)
        elif rec.get('stale'):
            other = [e for e in cfg['eps'] if e != 'exchange'][0]
            run.fail('race|exchange|stale-target|%s|other-thread:%s' % (
                rec['stale'][0], other),
                dict(kind='race', cfg=cfg, choices=ch.choices,
                     driver_calls_with_stale_target=rec['stale']), key,
                deviations=ch.cost)
        else:
            run.ok(key, nontrivial=rec['calls'] > 0)
    explore.explore(lambda ch: c15.execute(cfg, ch), 2, visit,
                    max_execs=20000, stats=stats)
    run.count('race', stats.executions)
    run.count('race_capped', 1 if stats.capped else 0)
    run.sample(dict(kind='race', cfg=cfg, executions=stats.executions))
    return run.export()


FAULT_KINDS = ('EIO', 'ENODEV', 'KeyboardInterrupt', 'TransmissionError',
               'TimeoutError')


def fault_cases(tier):
    """Default callbacks (and on-connect false), every option subset x
    environment; the n-th driver call fails, every n up to the number of
    driver calls of the fault-free history, every fault kind."""
    out = []
    optsets = [('rdwr',), ('llcp',), ('card',), ('rdwr', 'llcp'),
               ('rdwr', 'card'), ('llcp', 'card'), ('rdwr', 'llcp', 'card')]
    for opts in optsets:
        for env in ('none', 'tag', 'peer', 'reader'):
            cbs = [dict()] + [{(k, 'on-connect'): False} for k in opts]
            for cbret in cbs:
                base = dict(opts=opts, env=env, cb=cbret, term=6)
                if env == 'peer' and 'llcp' in opts:
                    base.update(role='initiator', stop_after_link=True)
                _, probe = connect_case(dict(base, fault=(10 ** 9, 'EIO'),
                                             probe=True))
                for n in range(1, probe[1] + 1):
                    for kind in FAULT_KINDS:
                        out.append(dict(base, fault=(n, kind)))
    return out


# -- driver -------------------------------------------------------------------
def work(unit):
    kind, chunk = unit
    run = Run(PROP)
    for case in chunk:
        if kind == 'sense':
            bad, outcome = sense_case(case)
            cls = 'sense|n=%d' % len(case[1])
        elif kind == 'listen':
            bad, outcome = listen_case(case)
            cls = 'listen|%s' % case[0]
        elif kind == 'defaults':
            bad, outcome = defaults_case(case)
            cls = 'connect|%s|%s' % (case[0], case[1])
        elif kind == 'faults':
            bad, outcome = connect_case(case)
            cls = 'connect|%s|%s' % ('+'.join(case['opts']), case['env'])
        else:
            bad, outcome = connect_case(case)
            cls = 'connect|%s|%s' % ('+'.join(case['opts']), case['env'])
        key = (kind, repr(case))
        run.outcome(outcome)
        if not bad:
            run.ok(key)
        seen = set()
        for sig, detail in bad:
            sig = '%s|%s' % (cls, sig)
            if sig not in seen:
                seen.add(sig)
                run.fail(sig, dict(detail, kind=kind, case=repr(case)), key)
        if len(seen) > 1:
            run.evaluations -= len(seen) - 1
        run.count(kind)
    run.sample(dict(kind=kind, case=repr(chunk[0])))
    return run.export()


def main(tier='quick', seed=0, part=None):
    run = Run(PROP, tier, seed, level='model_checking')
    units = []
    if part in (None, 'sense'):
        units += [('sense', c) for c in par.chunks(
            par.shuffled(sense_cases(tier), seed), 64)]
    if part in (None, 'listen'):
        units += [('listen', listen_cases(tier))]
    if part in (None, 'connect'):
        units += [('connect', c) for c in par.chunks(
            par.shuffled(connect_cases(tier), seed), 128)]
    if part in (None, 'defaults'):
        units += [('defaults', defaults_cases(tier))]
    if part in (None, 'faults'):
        units += [('faults', c) for c in par.chunks(
            par.shuffled(fault_cases(tier), seed), 128)]
    for res in par.pmap(work, units):
        run.merge(res)
    if part in (None, 'race'):
        for res in par.pmap(race_work, race_cfgs()):
            run.merge(res)
    n = run.evaluations
    run.rule = (
        "sense: every target list of length 1..3 over %d target kinds x "
        "iterations {1,2} x prelude {none, successful sense, successful "
        "listen}, each followed by exchange(); listen: a listen() that finds "
        "nobody, is not supported, has an invalid bit rate or fails on the "
        "host link, after a successful sense()/listen(), followed by "
        "exchange(); connect: option subsets x "
        "environment {none, tag, peer, reader} x callback return values with "
        "at most 2 non-default ones x terminate() turning true at its t-th "
        "call; race: exchange() in one thread against sense()/listen()/close() "
        "in another, every schedule with <= 2 preemptions - the driver is "
        "never handed a target other than the frontend's current one, and "
        "sense()/connect()/listen() against close() of another thread end "
        "in a return value or IOError; "
        "defaults: an empty option dictionary behaves like one that "
        "spells a documented default out (option kind x environment x "
        "terminate time); faults: for default callbacks (and on-connect false) the n-th "
        "driver call of the history raises IOError(EIO/ENODEV) or "
        "KeyboardInterrupt, every n and kind - connect() must return False - or "
        "a TransmissionError / TimeoutError (the contract applies as for any "
        "environment, connect() does not raise); "
        "each history judged by the reference automaton "
        "ref/connect_contract.py; distinct = distinct case" % len(KINDS))
    run.assumptions += [
        "scripted device and scripted LLCP peer (sim/peer.py); default "
        "schedule; where docstring and code disagree on something the "
        "property does not mention both are accepted (DESIGN A.6)"]
    return run.finish(coverage=dict(
        states=len(run.outcomes), transitions=n,
        traces_validated_against_impl=n,
        histories=dict(run.counters)), exhaustive=True)


def replay(doc):
    import ast
    d = doc['detail']
    if d.get('kind') == 'race':
        from props import c15
        s, rec = c15.execute(d['cfg'], sched.Chooser(d['choices']))
        raised = [r[1] for i, r in sorted(rec['results'].items())
                  if r[0] == 'exc']
        print('replay:', rec.get('stale'), raised)
        if '|raises|' in doc.get('signature', ''):
            return 1 if raised else 0
        return 1 if rec.get('stale') else 0
    case = ast.literal_eval(d['case'])
    bad, outcome = {'sense': sense_case, 'listen': listen_case,
                    'defaults': defaults_case}.get(
        d['kind'], connect_case)(case)
    print('replay:', [b[0] for b in bad], outcome)
    return 1 if bad else 0
